#!/usr/bin/env python3
"""Regenerates /verif/MANIFEST.json from the table below and validates it against the schema."""
import json, subprocess, sys, os

ROOT = os.path.dirname(os.path.dirname(os.path.abspath(__file__)))

def hook_commits():
    try:
        out = subprocess.check_output(["git", "-C", "/repo", "log", "--format=%h %s"], text=True)
        return [l.split()[0] for l in out.splitlines() if l.split(" ", 1)[1].startswith("verif:")]
    except Exception:
        return []

MC = "model_checking"
EX = "exploration"

# id: (level, technique, level text, level note, design ref, engine)
CHECKS = {
 "C01": (MC, "explicit-state BFS over (real parser control state x RFC 8259 PDA), all 256 bytes per state; deviation-bounded reader answers (io.EOF with the last chunk, one empty read), bytes behind the input slice, byte-order-mark family; scale family (documents of 7..129 elements / members / levels and strings of 7..4097 bytes, valid and damaged at one place)",
         "Every reachable product state of each strict front-end up to nesting D (3 quick / 5 thorough) is visited and every one of the 256 byte values, plus end of input, is executed on the real code from it and compared with a reference pushdown recogniser; the []byte entry point is run on every explored input. Within the bound this is a complete decision of the accept set, which no finite list of documents gives.",
         "Trusted: the jsonref recogniser (cross-checked against encoding/json.Valid on every explored input), the abstract state key (mode, nextMode, literal index, container stack shape, number threshold flags), nesting bound D.",
         "DESIGN.md §2.1, §3 C01", "bytemc"),
 "C02": (EX, "bounded-exhaustive enumeration of number literals / string escape sequences / small trees through ten front-end paths (parsers and tokenizers of oj, gen, sen; []byte and 1-byte reader) against a big.Rat + encoding/json reference; scale family through every front-end; fractions around the 2^64 wrap of digits + divisor",
         "Every literal of the number family (sign x integer digit patterns of length 1..21 incl. the int64/uint64 boundaries x fraction with 0..21 leading zeros x exponent forms), every string of <=2 (quick) / <=3 (thorough) escape items (all 65536 single \\uXXXX escapes, surrogate pairs, raw invalid bytes) as value and key, and every tree up to 5 nodes is parsed by oj.Parse, 1-byte ParseReader, oj.Tokenize, gen.Parser (both) and sen.Parse and compared with the reference value. The space is a matrix of code paths (threshold digit counts, escape cells), filled completely up to the bound. A string-pair family (two strings per document in five placements, the second over every two-item sequence) checks that nothing one string leaves behind in a front-end shows in the next.",
         "Trusted: strconv.ParseFloat, math/big, encoding/json (cross-checked); valref decoder for non-UTF-8 inputs. Lone surrogates and raw invalid bytes accept several readings.",
         "DESIGN.md §3 C02", "core"),
 "C04": (EX, "bounded-exhaustive enumeration of value trees x writer entry points x option products x WriteLimits against encoding/json + an omit accept-set reference; scale family; table columns of which one name begins the others; table cells with an object in one row and an array in the other one level down, depth limits beyond the tables",
         "Every tree up to the node bound over a leaf alphabet with one representative per string/number class (simple and gen form), deep single-child chains and the aligned-table family is written by every JSON writer entry point under the full product of boolean options (+ Width/MaxDepth/Align for pretty) and every WriteLimit; output must be valid JSON, decode to the tree minus exactly the omitted members, be byte-identical when streamed, and sorted/deterministic under Sort. Further families: every string of <=2/3 bytes over nine byte classes as value and key; deep nestings with siblings at every depth x indent around the fixed indentation tables (Sort, Tab).",
         "Trusted: encoding/json as JSON oracle; OmitEmpty read as an accept-set (DESIGN §2.5); map orders repeated, not enumerated.",
         "DESIGN.md §3 C04", "core"),
 "C10": (EX, "bounded-exhaustive enumeration of strings over SEN byte classes + reserved family x 4 contexts x 8 writers x options, round trip through sen.Parse; scale family; table columns of which one name begins the others; table cells with an object in one row and an array in the other one level down, depth limits beyond the tables",
         "All strings of <=2 (quick) / <=3 (thorough) class representatives (classes recomputed from the current SEN tables) plus the reserved family, as top-level value, array element, member value and member key, numbers and small trees, through every SEN writer entry point and option vector; sen.Parse of the text must give back an equal tree (strings stay strings, keys exact).",
         "Trusted: byte-class partition; a fresh sen.Parser per case; numbers by value.",
         "DESIGN.md §3 C10", "core"),
 "C11": (EX, "bounded-exhaustive enumeration of path expressions x documents x data representations; every evaluator compared with Get on the same data and Get compared across representations; lists of 66 with pending siblings under paths of three fragments; union members counted from the end",
         "Every sequence of <=2 (quick) / <=3 (thorough) fragments of the shared path alphabet on every document of the corpus, held as simple data, gen nodes, typed slices, Go arrays, struct values, pointers to structs and user Keyed/Indexed collections (all key orders): Has, First/FirstFound, Locate (with every max), Expr.Walk, GetNodes and FirstNode are compared with Get on the same representation (membership, order where defined, normalised paths whose own Get yields the element, locations equal to pathref's), and Get is compared across representations. Failing cases are shrunk and keyed by (evaluator, fragment, representation class, position, bound class, discrepancy).",
         "Trusted: Get is the reference (C05 checks Get itself); pathref for locations; order only where no multi-member object or descent is involved; failures consistent with the two implemented readings named in known_findings.txt are keyed as those findings, everything else keeps its own cell.",
         "DESIGN.md §3 C11", "core"),
 "C13": (EX, "bounded-exhaustive enumeration of (path, document, operation, value / modifier) on simple and gen data against a frame-condition oracle built from pathref's selection; lists of 66 with pending siblings under paths of three fragments",
         "Every sequence of <=2 (quick) / <=3 (thorough) fragments x every document x Set/SetOne/Del/DelOne/Remove/RemoveOne/Modify/ModifyOne (and Must variants) x 5 replacement values x 5 modifier functions on simple and gen data: the selection is the pathref reading that agrees with Get on the before-state; afterwards every location outside it is unchanged, every selected location holds the new value / is gone, *One forms change at most one location, Set creates only along child/index paths, impossible requests return errors, nothing panics, simple and gen agree.",
         "Trusted: pathref + scriptref and Get on the before-state; creation cases judged by a weaker oracle; nested selections accepted in any visiting order; failures that are exactly the inclusive slice reading (pathref.Variant.Inclusive) are keyed as that one finding.",
         "DESIGN.md §3 C13", "core"),
 "C12": (EX, "exhaustive operator x operand-kind x operand-kind matrix and bounded logic trees against a three-valued reference evaluator; 2^53 neighbours; chains of three and four many-valued comparisons; an alternation among the patterns",
         "Every operator x left operand x right operand (constants and @-paths, simple and gen data, missing / single / multi-valued paths), built through the constructors and by parsing the text, plus every &&/||/! tree up to depth 2 (quick) / 3 (thorough) on an element corpus; result must equal the reference, never panic, and Script.Match must equal filter membership.",
         "Trusted: scriptref (answers 'any' where the documentation leaves the result open); operator list read from the code.",
         "DESIGN.md §3 C12", "core"),
 "C14": (EX, "bounded-exhaustive enumeration of jp.Expr and Equation trees built with the public constructors; print / parse / re-print / evaluate differential; chains of three and four operands at the loosest precedence level",
         "Every expression of <=2 (quick) / <=3 (thorough) fragments over a key alphabet with quotes, backslashes, control and non-ASCII characters, and every equation tree up to depth 2/3 over all operator pairs and constant kinds: String()/BracketString() must parse, print identically again and evaluate identically on tailored data; scripts must Match identically on a corpus in which every leaf takes two values.",
         "Trusted: ojg's own Get/Match on both sides (differential, no reference evaluator); smaller-witness subsumption for attribution.",
         "DESIGN.md §3 C14", "core"),
 "C15": (EX, "bounded-exhaustive enumeration of reflect.StructOf types x values x option products x encoders against a reference encoder and encoding/json; BFS over plan-cache first-use orders; oj.Write repeated with WriteLimit 1 and 7; embedded pointer to a zero struct; slices and maps of pointers with nil elements; one-field types over map[int]int and map[string]string; discrepancies inside a container say what is wrong inside",
         "Every struct type of <=2 (quick) / <=3 thinned (thorough) fields over 22 field kinds x 6 tag classes x values x the option product is encoded by all encoder entry points; all outputs must denote one tree, equal to the reference encoder (option documentation) and to encoding/json under GoOptions; the cache-history leg explores every first-use order of (type, OmitEmpty, package) from empty caches. Every one-field type is also written through a pointer to a pointer and must give the tree written for the pointer.",
         "Trusted: encref (cross-checked against encoding/json on every case); readings weakened where options.go is silent (see checks/c15/TRIAGE.md).",
         "DESIGN.md §3 C15", "core"),
 "C16": (MC, "explicit-state BFS over recomposer registry states (orders of target types) with each step compared against a fresh recomposer; bounded-exhaustive round trips over StructOf and named types; field names of every length and casing; anonymous struct types that agree in a long prefix of their printed form; slices and maps of pointers with nil elements; a named bool, integers beyond 2^53 and fields that differ in case among the named cases",
         "History leg: state = registry content of one recomposer (private and alt.DefaultRecomposer), alphabet = recompose into each of 9 target type classes (same-named types of two packages, anonymous structs, same-named types declared inside two functions, embedding/field-of types, custom function); BFS over all orders up to length 3/4 with deduplication; every step's output must equal the output on a fresh recomposer. Value leg: Recompose(Decompose(v)), Unmarshal(Marshal(v)), sen round trip for every enumerated type and value.",
         "Trusted: reflect.DeepEqual modulo nil/empty; registry snapshot via reflection; process-wide state also contaminates the fresh run (stated).",
         "DESIGN.md §3 C16", "core"),
 "C17": (EX, "bounded-exhaustive enumeration of documents x target sets x entry points x chunkings against parse + pathref (outermost, document order)",
         "Every document of the corpus (JSON and SEN text, members in ascending and descending key order) x every single target and ordered pairs of targets over the shared path alphabet (child, index, wildcard, union, slice, descent, trailing filter) x oj.Match / MatchString / MatchLoad (whole, 1-byte, every 2-split) and the sen variants: the callback sequence (copied path, value) must equal the outermost locations pathref selects, in document order, identical for every chunking.",
         "Trusted: pathref + scriptref; the harness's own ordered document model; failing pairs only reported when each target alone passes.",
         "DESIGN.md §3 C17", "core"),
 "C18": (EX, "bounded-exhaustive enumeration of trees x conversions, plus every (copy operation, node position, mutation) aliasing experiment; a 17-digit decimal and an 18-digit fraction among the leaves",
         "Every tree up to the node bound over 30 leaf kinds through Generify/Simplify, GenAlter/Alter, Dup, Decompose, writer equality of gen and simple forms, gen.Parser vs Generify(oj.Parse); for every copying operation every node of copy and original is mutated in five ways and the other side compared with its snapshot. The pretty writers are compared on gen and simple form for every width within 8 columns of the flat width, MaxDepth 1-3, with and without Color; gen.Parser is also read through one-byte reads.",
         "Trusted: kind-exact tree codec; in-place variants only required to preserve the value.",
         "DESIGN.md §3 C18", "core"),
 "C19": (EX, "bounded-exhaustive enumeration of base trees x single/two-point perturbations x ignore-path sets against a reference diff",
         "Every base tree, every catalogue perturbation at every location (and pairs), every ignore set derived from the perturbed locations (covers / ancestor / sibling / wildcard / below, singles and pairs, both argument orders) through Diff, Compare and Match on simple and gen trees; missed / spurious / wrong-index / compare-inconsistent are judged by diffref under the three-valued scalar relation.",
         "Trusted: diffref; int-vs-float of the same value and instants <2ms apart are open; array tail reading of DESIGN §2.5.",
         "DESIGN.md §3 C19", "core"),
 "C20": (EX, "bounded-exhaustive enumeration of plans (function x arity x argument atoms, nesting depth 1/2, state-changing sequences) x 12 roots against an outcome-set reference; a used plan against a plan compiled just now on every root (history oracle); paths built from data; 2^53 neighbours; one list appended to twice among the step sequences",
         "Every function of asm.FnDocs() (read at run time) x arity 0..4 x argument atoms (+ depth-2 templates in thorough) on 12 roots: Execute never panics, two executions agree, the result is in the reference's outcome set for 37 modelled functions, String()/Simplify() rebuild an equivalent plan, and $.src is untouched unless a documented mutator targets it. Further legs: item independence of each, bodies evaluated with @ bound to a value that is not the root (against the reference), and functions documented to return a copy sharing no storage with their argument.",
         "Trusted: asmref (doc.go is the specification; ambiguous wording yields several acceptable outcomes); masked 'runtime error:' results accepted.",
         "DESIGN.md §3 C20", "core"),

 "C03": (MC, "explicit-state BFS + chunk lemma: every (reachable state, short chunk) pair fed at once vs byte-wise with concrete snapshot comparison; joint product agreement of all front-ends; token x split enumeration under every reader answer; every exported entry point x every kind of optional argument; scale family under reads of 1/3/16/64 bytes, splits and the refill; refill sweep (every byte of an element on either side of the 4096-byte refill); every token with one token of every other kind behind it",
         "Leg A decides chunk-independence by induction: for every reachable abstract state of each machine (single and multi-document) and every chunk of length 2..L over one representative per byte class (recomputed from the current tables), feeding the chunk at once and byte by byte must reach the same concrete state and the same final outcome. Leg B runs every input of the oj.Parser product search through all front-ends (whole and byte-wise, callback and channel) and requires equal trees or an error everywhere. Leg C splits long tokens at every offset and across the 4096-byte refill; leg D compares sen.Parse / ParseReader / Tokenize on every short SEN text.",
         "Trusted: abstract key and snapshot masking (scratch fields), byte-class partition, nesting and chunk-length bounds. SEN-only syntax is a known broken area (wildcard findings); SEN on strict JSON input and the SEN token list of leg C remain sharp.",
         "DESIGN.md §2.2, §3 C03", "bytemc"),
 "C05": (EX, "bounded-exhaustive enumeration of path expressions x documents against an independent reference evaluator (pathref), with earliest-fragment localisation; lists of 66 with pending siblings under paths of three fragments",
         "Every sequence of <=2 (quick) / <=3 (thorough) fragments over an alphabet that puts every index / slice bound in every sign and magnitude relation to the array lengths of the corpus (12 indexes, 392 start x end x step slices, unions, wildcard, descent, 5 filters decided by the scriptref reference) is evaluated by Expr.Get on every document of the corpus and compared with pathref (sequence where order is defined, multiset otherwise); position independence Get(x.f.c) = union of Get(c) over Get(x.f) is checked on the implementation itself. A path ending in a bare descent must return, as a multiset, every node below the start nodes exactly once.",
         "Trusted: pathref + scriptref; open readings enumerated as pathref.Variants; trailing bare descent only no-panic/determinism; map orders repeated.",
         "DESIGN.md §3 C05", "core"),
 "C06": (MC, "explicit-state BFS over all six byte machines (256 bytes per state, reader faults injected at every chunk boundary) + bounded-exhaustive token-sequence / plan / tree enumeration for the recursive parsers; scale family, every cut of it and the refill sweep under recover; proc fragments behind every kind of earlier fragment",
         "Leg A visits every reachable abstract state of each of the six byte state machines (single- and multi-document) up to the nesting bound and executes all 256 byte values, end of input and one injected reader fault per chunk boundary through the reader and []byte entry points, under recover. Legs B-D enumerate every token sequence up to the length bound into the JSONPath/script parsers, every asm function x arity x argument-kind vector, and every small tree into Unmarshal/Recompose for 26 target types. A panic anywhere is a violation with the input as witness; hangs are caught by the worker watchdog.",
         "Trusted: abstract state key (merged states behave alike for control flow), the token / argument / target alphabets; DESIGN.md §2.5 reading of 'runtime fault' (masked 'runtime error:' error results are counted, not violations).",
         "DESIGN.md §3 C06", "bytemc"),
 "C07": (MC, "exhaustive depth-bounded search over call histories of one long-lived instance, every call re-executed on a fresh instance (two initial states for the parsers; returned values and returned errors held on to); culprit field localised by single-field transplant; documents past the initial capacities (9 members, 18 levels, 47-byte escaped string); a token function that keeps its arguments",
         "The reused instance (9 instance kinds + the pooled package-level functions of oj and sen) is the state machine and API calls are the alphabet (valid documents, documents aborting in every family of modes, failing readers/writers, option and callback variants, Reuse/OnlyOne/Options changes). Every sequence up to the depth bound is executed; the last call's result (value, error text with line:column, bytes written) must equal the result on a fresh instance with the same exported configuration; earlier returned values are re-inspected after every call and input buffers are overwritten after use. A difference is attributed to the private field whose transplant into a fresh instance reproduces it.",
         "Trusted: the call alphabets; exported configuration fields count as arguments; documented reused buffers (MustJSON, MustSEN, sen.Bytes, pretty Encode) and Reuse maps are exempt; sync.Pool is emptied by two GC cycles.",
         "DESIGN.md §3 C07", "core"),
 "C08": (MC, "stateless schedule enumeration (DFS, iterative preemption bounding) of the real code under a cooperative scheduler hooked into sync.Pool / sync.Mutex via a build overlay (the pool shim also reports an object put back twice); separate free-running -race pass that keeps seeing new struct types; grown-buffer and typed-container groups; race pass with emptied plan caches for every plan-cache group",
         "For every harness (2 threads x 1-2 calls, 3 threads x 1 call; calls drawn from 7 groups forced to collide on one pool, plan cache or shared jp expression) all schedules with at most P preemptions are executed; scheduling points are Pool.Get/Put, Mutex.Lock/Unlock and the boundary after each call. Every call must return what it returns alone, every returned buffer must still hold its text when the caller looks again after other threads ran, shared expressions / recomposers must be bit-identical afterwards, no deadlock. Data races between scheduling points are left to the race-detector pass over the same call bodies (labelled as such in the evidence). Shared objects are also snapshotted as constructed and must not change when a call is made for the first time.",
         "Trusted: sync.Pool modelled as LIFO+New; atomicity between scheduling points (complemented by -race pass); harness alphabets; -race pass built with checkptr disabled because ojg's unsafe field arithmetic trips it.",
         "DESIGN.md §3 C08", "sched"),
 "C09": (MC, "explicit-state BFS for the state set, then exhaustive whitespace-insertion x offending-byte x chunking x reader-answer enumeration per state, []byte also with a continuation stored behind the slice; positions past the 4096-byte refill",
         "For the witness of every reachable product state, every placement of whitespace/newline insertions at inter-token positions, every offending byte the reference rejects (and end of input when incomplete), two tails and every chunking (whole, one chunk, byte-wise, every 2-split, split after each newline) is executed on all strict front-ends and the reported line:column compared with the byte-exact expectation computed from the input.",
         "Trusted: jsonref decides the first offending byte; BOM-less inputs; insertion count bound (1 quick, 2 thorough).",
         "DESIGN.md §3 C09", "bytemc"),
}

NOT_YET = {
}

def main():
    props = [json.loads(l)["id"] for l in open(os.path.join(ROOT, "properties.jsonl")) if l.strip()]
    checks = []
    for pid in props:
        if pid not in CHECKS:
            continue
        level, tech, text, note, ref, engine = CHECKS[pid]
        checks.append({
            "property_id": pid,
            "quick_cmd": f"./run.sh {pid} quick",
            "thorough_cmd": f"./run.sh {pid} thorough",
            "evidence_file": f"/verif/evidence/{pid}.json",
            "replay_cmd_template": f"./run.sh {pid} replay {{path}}",
            "engine": engine,
            "level_claimed": {"category": level, "text": text, "design_ref": ref},
            "level_note": note,
            "technique": tech,
        })
    na = [{"property_id": p, "reason": NOT_YET.get(p, "check not built yet in this session; design in DESIGN.md §3")}
          for p in props if p not in CHECKS]
    man = {
        "version": 1,
        "setup_cmd": "./setup.sh",
        "hooks": {
            "guard": "verif (Go build tag)",
            "enable": "go build -tags verif -overlay <generated> (run.sh does this for every check; the overlay only reroutes the sync import of ojg files to a shim that delegates to package sync unless the C08 scheduler is installed)",
            "baseline_off_cmd": "cd /repo && GOFLAGS=-mod=mod GOPROXY=off GOSUMDB=off GOTOOLCHAIN=local go test -json -vet=off -count=1 -timeout 25m ./...",
            "source_commits": hook_commits(),
            "add_only": True,
        },
        "engines": [
            {"name": "bytemc", "path": "internal/bytemc", "serves_properties": ["C01", "C03", "C06", "C09"],
             "kind_free_text": "explicit-state BFS over the product of a real byte state machine (driven through its public reader entry point, private state read by reflection) and a reference PDA"},
            {"name": "sched", "path": "internal/sched", "serves_properties": ["C08"],
             "kind_free_text": "cooperative scheduler + DFS schedule explorer with preemption bounding; sync.Pool/Mutex of ojg routed through internal/vsyncsrc by go build -overlay (tools/overlay.sh), /repo untouched"},
            {"name": "core", "path": "internal/core", "serves_properties": props,
             "kind_free_text": "sharded worker processes, known-findings matcher, evidence and replay writers"},
        ],
        "checks": checks,
        "not_applicable": na,
        "notes": "All checks: ./run.sh <id> quick|thorough|replay. Known findings: known_findings.txt. See DESIGN.md.",
    }
    path = os.path.join(ROOT, "MANIFEST.json")
    json.dump(man, open(path, "w"), indent=1)
    open(path, "a").write("\n")
    try:
        import jsonschema
        jsonschema.validate(man, json.load(open("/root/.vp/MANIFEST.schema.json")))
        for c in checks:
            ev = os.path.join(ROOT, "evidence", c["property_id"] + ".json")
            if os.path.exists(ev):
                jsonschema.validate(json.load(open(ev)), json.load(open("/root/.vp/EVIDENCE.schema.json")))
        print("MANIFEST.json valid;", len(checks), "checks,", len(na), "not_applicable")
    except ImportError:
        print("jsonschema not available; not validated")

if __name__ == "__main__":
    main()
