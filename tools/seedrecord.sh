#!/bin/bash
# tools/seedrecord.sh <check Cnn> <seed property Cmm> <n> — runs check Cnn (quick) against seeded change Cmm-n and appends the
# verdict to /tmp/seed-out/matrix.jsonl (the last line for a seed wins in tools/seedcollect.py).
CK="$1"; ID="$2"; N="$3"; OUT=/tmp/seed-out/matrix.jsonl; log=/tmp/seed-out/$ID/matrix-$N-$CK.log
SEEDTEST_SHOW=3 VERIF_BUDGET_S=200 timeout 1500 "$(dirname "$0")/seedtest.sh" "$CK" "/tmp/seed-out/$ID/patch-$N.diff" quick > "$log" 2>&1
v=$(grep -oE 'SEEDTEST violations: [0-9]+' "$log" | grep -oE '[0-9]+$'); rc=$(grep -oE 'SEEDTEST exit=[0-9]+' "$log" | grep -oE '[0-9]+$')
sigs=$(grep "  sig=" "$log" | head -3 | sed 's/^  sig=//; s/ count=.*//' | python3 -c "import sys,json; print(json.dumps([l.strip() for l in sys.stdin]))")
echo "{\"seed\":\"$ID-$N\",\"check\":\"$CK\",\"tier\":\"quick\",\"violations\":${v:-0},\"exit\":${rc:-2},\"sigs\":$sigs}" | tee -a "$OUT" | cut -c1-200
