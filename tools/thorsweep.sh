#!/bin/bash
# tools/thorsweep.sh <outdir> <ids...> — developer tool: the thorough tier of the given checks one after the other,
# evidence and replays under <outdir>, one summary line per check in <outdir>/progress.log
cd "$(dirname "$0")/.."
OUT="$1"; shift
mkdir -p "$OUT"
for id in "$@"; do
  VERIF_OUT="$OUT/$id" ./run.sh "$id" thorough > "$OUT/$id.log" 2>&1
  echo "$id exit=$? $(grep -c '^VIOLATION' "$OUT/$id.log") violations; $(tail -1 "$OUT/$id.log" | cut -c1-200)" >> "$OUT/progress.log"
done
echo SWEEP-DONE >> "$OUT/progress.log"
