#!/usr/bin/env python3
"""Collects confirmed seeded changes from /tmp/seed-out into /verif/seeded/<id>/ (patch.diff, demo_test.go, meta.json)."""
import json, os, re, shutil, glob
SRC = '/tmp/seed-out'; DST = os.path.join(os.path.dirname(os.path.dirname(os.path.abspath(__file__))), 'seeded')
NOTES = {
 'C01-18': 'a reuse defect (the container stack of a reused / pooled oj.Parser after a reader that fails with a container open): outside what C01 explores (fresh instance per input); caught by C07 (history search, reader that fails mid-way)',
 'C02-16': 'strengthened: missed at first (no 19-digit fraction inside the window in which digits + divisor passes 2^64 before the switch to the textual form: 8446744073709551616..9223372036854775799); the fraction alphabet gained both ends of that window, a value inside it and the 18-digit neighbours',
 'C02-18': 'a reuse defect (ForceFloat left set by the error path of Parser.Unmarshal): every parse on a fresh parser is right, so not the business of C02; caught by C07 (Unmarshal on malformed text in the parser alphabets)',
 'C03-16': 'strengthened: missed at first (every token text stood alone in its context, so what reading a literal piecewise leaves behind never met a \\\\uXXXX escape); the token contexts of leg C gained two in which the token is followed by one token of every other kind (escaped string, literal, number, big number, escaped member name), split at every offset',
 'C04-16': 'dissolved by a repair: the change assumes that the members of an aligned row and the columns of the table are in one order. They were not (members by key, columns by encoded key text), which the table family exposed as a defect of its own once it had column names of which one begins the others; since bf1653c both are ordered by key and the change no longer breaks anything. On the tree it was written for (601d929) C04 reports it (6 signatures wrong-tree:missing with opts=align)',
 'C04-18': 'a reuse defect (oj.Writer keeps the io.Writer of a Write that failed): the text of each call on a fresh Writer is right; caught by C07 (writer alphabets with a failing io.Writer)',
 'C05-17': 'a filter-script defect (< > <= >= of two integers through float64): not caught by C05 (small integers in its documents); caught by C12 after the operand matrix gained the neighbours 2^53 and 2^53+1. The same alphabet extension in C20 exposed the same slip in asm lt / lte / gt / gte on the unchanged tree (repaired)',
 'C06-16': 'an accept-set defect first ("}" directly after a colon), the nil-map write is a consequence seven bytes later, beyond the consequence probe of C06; caught by C01 (BFS, every byte from every state)',
 'C06-17': 'strengthened: a fault at the 4096-byte refill that needs an earlier look-ahead in the same buffer: missed by every check at first (the refill family padded a single token with blanks); C03 gained the refill sweep (a 4.6 KB text of elements with member names, escaped strings, numbers, literals and line feeds, moved byte by byte so that every byte of an element falls once on either side of the refill) and reports it as a chunking difference; C06 counts the panic as an error there',
 'C06-18': 'a reuse defect (sen.Parser.plus survives a failed parse): caught by C07',
 'C07-17': 'strengthened: missed at first (no object with more than eight members, the size a recycled map starts with); the document alphabets of the parser kinds gained documents past the initial capacities (9 members, 18 levels, a 47-byte escaped string), also left open',
 'C08-17': 'strengthened: missed at first (no call whose text is longer than the 1024 bytes a pooled writer starts with); a grown-buffer group (oj.Marshal / oj.JSON / sen.Bytes of a 1.2 KB value next to short ones) was added; C07 catches it as well (returned-value-mutated)',
 'C08-18': 'strengthened: missed at first (no typed map or slice of structs as the value itself, and the race pass emptied the plan caches for one group only); a plan-cache.typed group was added and every plan-cache group now runs free with emptied caches and brand-new struct types',
 'C10-18': 'dissolved by a repair, like C04-16 (same change in the SEN spelling: a quoted member name sorts before a bare one as encoded text): on the tree it was written for C10 reports it (6 signatures different-key on tables); after bf1653c it no longer breaks anything and its demonstration passes',
 'C11-17': 'strengthened: missed at first (no union member counted from the end below the start of the array); the union alphabet gained [-5,1] and [-2,-6]',
 'C12-17': 'strengthened: missed at first (at most two many-valued operands in one script); the logic leg gained chains of three and four many-valued comparisons with their own constants under every mix of && and ||',
 'C12-18': 'a printing defect (an integral float constant loses its ".0" when it is not the first thing printed): the first script evaluates correctly, so not the business of C12; caught by C14 (constants of every kind next to every operator, printed and re-read)',
 'C13-17': 'strengthened: missed at first (no document that puts more than 64 entries on the evaluation stack while containers are pending below); gens.WideDocs (lists of 66 objects / numbers with short siblings before and after) under a small alphabet with paths of three fragments, in C05, C11 and C13',
 'C14-16': 'strengthened: the thorough tier (depth 3) caught it, quick did not; quick gained chains of three and four operands at the loosest level, each a tighter operation, leaning left and right',
 'C15-17': 'strengthened: missed at first (oj.Write was only run with the default WriteLimit); the oj.Write encoder of C15 now repeats every call with WriteLimit 1 and 7 and requires the tree of the plain call',
 'C15-18': 'strengthened: missed at first (an embedded pointer was nil or pointed to a struct with every field set); the embedded-pointer kind gained a pointer to a zero struct',
 'C16-16': 'strengthened: missed at first (the two anonymous struct types of the history leg print in under 64 bytes); two anonymous struct types whose printed forms agree in their first hundred bytes were added as targets and as named cases',
 'C16-17': 'strengthened: missed at first (the generated field names are Ab, FieldTwo ...); a named case with a field name of every length class and casing pattern (A, Bc, DE, Fgh, IJK, URL, LMn, OpQ, Rstu, VWXY, ZaBcd) was added',
 'C18-16': 'a number defect of gen.Parser (double rounding of 16-18 digit decimals): caught by C02; C18 gained a 17-digit decimal among its leaves and catches it too',
 'C18-17': 'a threshold difference between gen.Parser and oj.Parser at 18 fraction digits: caught by C03 (joint agreement); C18 gained a json.Number with 18 fraction digits among its leaves',
 'C20-17': 'strengthened: missed at first (small integers only); the argument alphabet gained 2^53 and 2^53+1. This made the reference asmref exact on integers and exposed a genuine defect of asm lt / lte / gt / gte (repaired)',
 'C20-18': 'strengthened: missed at first (a plan was compared with itself on one root, and no path was put together from data); every plan that has run on other roots is now compared with a plan compiled just now (keyed by where the Simplify() forms differ: a container literal = the listed finding, anything else its own cell), and the alphabet gained [root asm $.src.s] and [at asm @.src.s]',
 'C12-14': 'strengthened: missed at first (no integer spelled with a leading zero among the hand-written literals); the literal leg gained leading zeros (read as decimal), the int64 boundary values, zero fractions and exponents with leading zeros',
 'C13-15': 'NOT caught, by decision: the change only affects a user jp.RemovableIndexed collection; the statement of C13 names simple and gen data (see C13-4)',
 'C14-13': 'strengthened: missed at first (the arithmetic trees had integer leaves, for which regrouping a chain of + or * is invisible, and the re-parsed text is identical); the same trees are now also run over decimal leaves for which + and * are not associative in float64',
 'C15-15': 'strengthened: missed at first (the float32 representative 1.5 reads the same in 32 and 64 bits); it is now float32(0.1)',
 'C16-13': 'strengthened: missed at first (no two types with one package path and one name); the history leg gained two types of the same name declared inside two functions',
 'C16-15': 'an encoder defect (the reflective by-value omitempty copy of the float64 writer formats with 32 bits): the round trip only shows it for long fractions; caught by C15 (float64 representative no float32 holds, OmitEmpty, by-value pass)',
 'C17-15': 'strengthened: missed by C17 at first (no boolean in any of its documents; C03 caught it: reader entry of oj.Tokenizer against the other front-ends); gens.PathData gained a document with true and false',
 'C18-13': 'the escape \\u0080 in gen.Parser only: not caught by C18 (no such escape among its rendered trees); caught by C02 (every single \\uXXXX escape through every front-end)',
 'C20-13': 'strengthened: missed at first (no two objects of one size that share a member and differ in the name of another); two such object literals added to the argument alphabet',
 'C01-15': 'strengthened: missed at first (the reader entry points look for the byte-order mark in local variables before the machine starts, so no state key shows it and the search merged EF BB xx with every other text); C01 gained the byte-order-mark family: the mark, its prefixes and near misses (one byte replaced) in front of short texts, []byte and every split of the first six bytes into reads, under the reader answers. This exposed a genuine defect (a mark after an empty first read was rejected; repaired)',
 'C03-13': 'strengthened: missed at first (no quoted string spelled like a literal that ends on the slow string path); strings spelled like other tokens (true, null, numbers, containers), plain and with one character as a \\uXXXX escape, added to the token texts of C03 and as a family of C02',
 'C03-14': 'the escape \\u0080 in oj.Tokenizer only: not caught by C03 (no such escape among its token texts); caught by C02 (every single \\uXXXX escape through every front-end, oj.Tokenizer among them since the fourth round)',
 'C04-13': 'a reuse defect (what a Writer derives from its options is not recomputed when only Sort or Tab changes): the text of each call on a fresh Writer is right, so not the business of C04; caught by C07 after its writer alphabets gained one option at a time (set:Sort, set:Indent, set:Tab) and an object with two members',
 'C05-14': 'the gen.Array copy of the slice code: not caught by C05 (simple data); caught by C11 (representations against Get on the simple form)',
 'C05-15': 'a filter-script defect (float == int truncates): not caught by C05 (integer data); caught by C12 (operator matrix, l=float r=int)',
 'C06-13': 'a fault that needs two struct types with one short name recomposed in a particular order: not caught by C06 (one target type per call); caught by C16 (history leg over named, same-named and anonymous types)',
 'C06-15': 'strengthened: missed at first (printed scripts never hold parentheses that are not needed and the token sequences of C06 are too short for them); C06 and C12 gained the redundant-parentheses family: operand op operand with one or two pairs around either operand and the whole, through NewScript, NewFilter and the path reader (C12 requires the value of the base script). C14 catches it as well',
 'C07-13': 'a process-wide plan cache read with the wrong key (sen copy): not caught by C07 (instances, not type caches); caught by C15 (first-use history leg)',
 'C07-14': 'strengthened: missed at first (needs Reuse on, a parse, Reuse off, two more parses: five calls); the parsers are now also explored from a second initial state (created with Reuse set) and with the channel form, which switches Reuse off for the call',
 'C07-15': 'strengthened: missed at first (only returned values were held on to, not returned errors); every error a call returns is now watched like a value: it must read the same after later calls',
 'C08-15': 'strengthened: missed at first (the expectation runs of the race pass had already registered every type, and a type is seen for the first time only once per process); the race pass now empties the plan caches before the concurrent calls start and writes a value of a brand-new struct type (reflect.StructOf) through a tight or indented encoder after every call, and the plan-cache group gained indented struct writes',
 'C09-14': 'an accept-set defect of oj.Tokenizer (a top-level number ended by a newline, then a comma): the wrong position is a consequence; caught by C01 (same change as C01-13 in the Validator)',
 'C10-15': 'a pooled-parser defect (sen.Parse runs its pooled parser with Reuse set): every round trip on its own is right, so not the business of C10; caught by C07 (pooled kind, returned-value-mutated)',
 'C02-10': 'strengthened: missed by C02 at first (it read events from the []byte entry point only; C03 caught it); C02 now also runs oj.Tokenizer, sen.Tokenizer and sen.Parser through their reader entry points (one-byte reads) and sen.Tokenizer on the whole text',
 'C02-11': 'strengthened: missed by C02 at first (sen.Tokenizer was not among its front-ends; C03 caught it); see C02-10',
 'C02-12': 'strengthened: missed at first by C02, C03, C07 and C08 (no Parser with Reuse set was ever given a channel); C03 gained leg E: every exported parse / tokenize / validate entry point (package functions, Must* and *String forms, methods of fresh and Reuse parsers) x every kind of optional argument x every way a reader ends, against (&Parser{}).Parse of the same package',
 'C03-10': "strengthened: missed at first (the harness reader always delivered io.EOF on a read of its own); C01, C03 and C09 now run every chunking under the reader's other lawful answers as well: io.EOF together with the last chunk, one empty read (0, nil) at every position. This exposed a genuine defect of sen.Tokenizer.Load (47b8a7b)",
 'C03-11': 'strengthened: missed at first (no member with the empty name in the token contexts); contexts with "" as member name, at the top and nested, added',
 'C03-12': 'strengthened: missed at first (only Parser.Parse / ParseReader were driven); caught by leg E (see C02-12)',
 'C04-10': "an aliasing defect (Marshal with a caller-supplied Writer returns the Writer's buffer): the text is right when it is returned, so not C04's business; caught by C07 (returned-value-mutated)",
 'C05-11': 'a filter-script defect (count() of an empty selection): not caught by C05 (no count() in its filter alphabet); caught by C12 (operator matrix, op=count)',
 'C05-12': 'strengthened: missed at first (the order of a result was only compared on documents without any object of two members, and none of those had several parents with several hits); whether order is defined is now decided per evaluation (pathref.Result.MapOrder) and two such documents were added to gens.PathData. C11 catches it as well',
 'C06-11': 'strengthened: missed at first (no SEN token function was ever called with a non-string argument); C06 gained the token-function family: AddMongoFuncs and a user function x every kind and number of arguments x three contexts x both entry points',
 'C07-10': 'a process-wide plan cache read with the wrong key: not caught by C07 (instances, not type caches); caught by C15 (first-use history leg) and C08 (plan-cache group)',
 'C08-10': 'strengthened: missed at first (no two registered types with the same short name); the alt group gained two Point types from different packages and two anonymous struct types, registered before the calls start. This exposed a genuine race on the composers map for anonymous types (repaired)',
 'C08-12': 'strengthened: missed at first (no Must* call on its failure path among the concurrent calls, and nothing watched the pool discipline); failing oj.MustParse / MustLoad / sen.MustParse / MustParseReader / oj.Marshal added, and the pool shim reports an object that is put back while it already sits in the pool',
 'C09-11': 'strengthened: missed at first (no empty read in any chunking); see C03-10. C09 also reports a run that raises no error at all where the default run of the same chunking reports one',
 'C09-12': 'strengthened: missed at first (inputs were exact slices and fresh read buffers); C01, C03 and C09 now run the []byte entry point on the same slice with its likeliest continuation stored right behind it in the spare capacity and with no spare capacity at all: the answer must not change',
 'C10-10': 'strengthened: missed at first (Options.FloatFormat was never set); every option vector of C10 and C04 is now also run with the documented default verb "%g" spelled out',
 'C10-12': "an aliasing defect (strings of the returned tree refer to the caller's buffer): the tree is right when it is returned, so not C10's business; caught by C07 (aliases-input)",
 'C11-12': 'strengthened: missed at first (no null member in any document); gens.PathData gained three documents with null members in arrays and objects, First / FirstNode returning nil for a selected null is accepted. This exposed a genuine defect of GetNodes / FirstNode (37ba87e)',
 'C12-11': "a Remove defect (the list is compacted in place while the filter is still being decided): not C12's business; caught by C13 after the path alphabet gained a filter that reads the filtered list through $ (see C13-11)",
 'C13-11': 'strengthened: missed at first (no filter read the list being filtered); the filter alphabet gained [?(@ == $[0])]. This exposed three genuine defects: a panic comparing structs, containers comparing equal to themselves in some representations (both repaired) and Modify deciding such a filter on the changing document (listed)',
 'C13-12': 'strengthened: missed at first (no null member in any document); see C11-12',
 'C14-11': 'the stand-alone filter parser jp.NewFilter (same change as C12-12): not caught by C14; caught by C12 (newfilter build of the logic leg)',
 'C15-11': 'the same change as C04-10 proposed independently: caught by C07',
 'C16-10': 'the same change as C04-10 proposed independently: caught by C07',
 'C17-12': 'strengthened: missed by C17 at first (its readers never returned 0, nil; C03 and C09 caught it, same change as C09-11); MatchLoad is now also run with an empty read first / in the middle / before io.EOF and with io.EOF delivered together with the data',
 'C01-2': 'strengthened: missed at first (the stale look-ahead index only shows with a newline + blank before a quote at the end of a buffer); C01 gained the whitespace-placement family (every witness x one whitespace insertion x {as is, completed} x {[]byte, one chunk, every 2-split})',
 'C03-3': 'strengthened: the thorough tier (chunks of length 3) caught it, quick did not; quick gained the look-ahead chunk family (opener + every class representative + follower)',
 'C04-1': 'strengthened: missed at first (0x0b was not in the string alphabet; the escape table is private so classes cannot be recomputed); two leaves holding every byte 0x01-0x1f and 0x20-0x7f added',
 'C05-2': 'strengthened: missed at first; filter alphabet gained a script with two multi-valued operands and documents on which only an off-diagonal pair is equal',
 'C05-3': 'strengthened: missed at first; filter alphabet gained a $-rooted operand and a document whose elements have a member of the same name as the root',
 'C06-1': 'strengthened: missed at first (the abstract key masks ri outside literal modes, so the BFS merged the prefix with the \\\\u escape); the explorer gained the merge audit of DESIGN 2.4: per state up to 3 alternative witnesses with a different stale-field fingerprint, re-run for all 256 bytes, successors with an unseen key become states',
 'C06-2': 'strengthened: the first run hung the batch: the hang watchdog looked at heartbeats, which a spinning worker keeps sending; it now looks at an atomic progress counter (no progress for 120 s = hang, shard re-run in journal mode to name the input)',
 'C06-3': 'strengthened: missed at first (Recompose masks the fault as an error, which DESIGN 2.5 accepts); leg D gained alt.MustRecompose / Recomposer.MustRecompose and the create keys "" and "^" in the key alphabet. This also exposed a genuine nil-dereference for null elements (repaired)',
 'C08-1': 'strengthened: missed at first (every io.Writer of the harness copied p at once); oj.Write / sen.Write now also run with a slow consumer that yields to the scheduler (runtime.Gosched in the race pass) before it reads p',
 'C10-2': 'missed by C10 at first (no float with 20+ fraction digits), caught by C02; C10 number alphabet gained 17-significant-digit floats at every small magnitude and now catches it too',
 'C12-3': 'strengthened: missed at first (scripts were only built by constructors or from printed text, which always signs exponents); a literal-spellings leg parses hand-written number and string spellings',
 'C14-1': 'strengthened: missed at first (0x0b not among the keys); a key and a string constant holding every control character and every printable ASCII character added',
 'C15-1': 'strengthened: missed at first (no three-letter field name with an inner capital among the generated names); a naming leg encodes 17 field names under 5 option sets with every encoder and requires one spelling',
 'C16-3': 'not caught by C16 (no value with an escaped key after an escaped string); caught by C03 (token family, string with escapes split outside the token)',
 'C01-4': 'a reuse defect (stale container stack in the reader entry point of a reused / pooled parser): outside what C01 explores (fresh instance per input); caught by C07 (history search), where it belongs',
 'C03-5': 'the same change as C01-4 proposed independently: caught by C07',
 'C09-4': 'the same change as C01-4 proposed independently: caught by C07',
 'C02-5': 'a reuse defect (gen.Parser Reuse map pool index): caught by C07; the first run only reported a worker fault (the self-containing result overflowed the stack in the canoniser), mach.Canon gained a depth guard and C07 now names the call and the instance kind',
 'C06-5': 'a reuse defect (sen.Parser.plus survives in the reader entry point): caught by C07',
 'C04-5': 'a reuse defect (oj.Writer keeps the io.Writer of an earlier Write): caught by C07',
 'C10-5': 'a reuse defect (sen.Writer keeps the io.Writer of an earlier Write): caught by C07',
 'C03-4': 'strengthened: missed at first (SEN-only syntax is a wildcard finding in legs A and D); leg C gained SEN texts with + concatenation after token members and elements, split at every offset',
 'C05-6': 'not caught by C05 (its filters come from the constructors); strengthened C12: the logic leg now also builds every script through jp.NewFilter (the hand-copied twin of the filter reader in the path parser)',
 'C08-4': 'strengthened: missed at first (the jp group only used Get/First/Has/Set/Del on the shared expression); Locate, Walk, Remove and Modify on shared expressions with $-rooted filters added, the shared expressions are compared bit by bit afterwards',
 'C08-5': 'strengthened: missed at first (no call with a per-call NumConv option); the parse groups of C08 and the reader alphabets of C07 gained big-number documents read with and without NumConvString / NumConvFloat64',
 'C08-6': 'strengthened: missed at first (the expected results were computed on the shared objects, which completed them); shared objects are now snapshotted as constructed and must not change on first use, the race pass runs the concurrent calls on a second, never used set of shared objects, and the alt group has a type whose field types are only reachable through a map, slice, pointer and array',
 'C10-4': 'strengthened: missed at first (table columns were named a, b, c); the table family shared by C04 and C10 gained columns whose names a writer has to quote or escape',
 'C13-4': 'NOT caught, by decision: the change only affects a user jp.Keyed collection as the parent of a Del; the statement of C13 names simple and gen data ("They behave the same on simple and gen data") and the check enumerates those two forms. A trial run with OrdKeyed/OrdIndexed data as a third form did catch it, together with 101 further failing cells on the unchanged tree (Modify does not reach into Keyed/Indexed collections in most branches, Set panics inside reflect for union keys, RemoveOne removes several): a different, larger subject than this property, so the form was not adopted (DESIGN 8.2)',
 'C17-5': 'a tokenizer defect (stale scratch buffer when the opening quote of a value is the last byte of a read): not caught by C17 (plain keys and values, no slow-path string before); caught by C03 (token family, byte-wise split)',
 'C17-6': 'a number defect of sen.Tokenizer (fraction digits beyond the 64-bit divisor): not caught by C17 (no long fractions in its documents); caught by C03 (joint agreement of all front-ends)',
 'C12-6': 'not caught by C12 (its function operands are constants and paths); caught by C14 (equation trees with a function whose argument is an operator expression, printed and re-parsed)',
 'C14-5': 'the stand-alone filter parser jp.NewFilter: not caught by C14 (it re-parses through ParseString / NewScript / MustParseEquation); caught by C12 (newfilter build of the logic leg, added after C05-6)',
 'C16-4': 'strengthened: missed at first by C16 and C15 (the embedded struct of the type alphabet had its only scalar at offset 0); EmbA gained a float64 and a bool field behind the string',
 'C16-5': 'missed by C16 (round trips use default options); strengthened C15, which catches it: the float64 representative is now a value no float32 holds',
 'C18-4': 'strengthened: missed at first (the writer-equality leg only used oj.JSON and sen.String); pretty.JSON / pretty.SEN added with every Width within 8 columns of the flat width of the tree and MaxDepth 1-3',
 'C18-5': 'strengthened: missed at first by C18 (gen.Parser.Parse only; C02 and C03 catch it); the parser-equality leg now also reads every rendered tree through ParseReader with one-byte reads on both sides',
 'C20-6': 'strengthened: missed at first (every plan was evaluated with @ = $); a local-context leg evaluates bodies that read @ with @ bound to a value that is not the root and compares value, @ and $ afterwards with asmref.RunLocal',
 'C02-7': 'a reuse defect (ForceFloat left set by the error path of Parser.Unmarshal): caught by C07 after its alphabets gained Unmarshal on malformed text for every parser kind and the pooled functions',
 'C02-8': 'the same change as C02-5 proposed independently (gen.Parser Reuse map pool): caught by C07',
 'C02-9': 'a chunk-boundary defect of oj.Tokenizer (big number, decimal point on the last byte of a read): caught by C03 (joint agreement of all front-ends, reader entry points)',
 'C03-7': 'the pending high surrogate of gen.Parser surviving the end of a string: not caught by C03; strengthened C02, which catches it: in the string-pair family the second string now ranges over every two-item sequence (every "bytes before" x "escape after" combination) when the first is a single item',
 'C04-7': 'strengthened: missed at first (chain depths and indents did not meet where depth x indent crosses the 128-blank table with an indent that does not divide it); the indent-chains family (C04 and C10) enumerates depth x indent around the fixed indentation tables, with and without siblings, Sort and Tab. The family also exposed a genuine defect of pretty.SEN from depth 128 on (repaired)',
 'C04-8': 'strengthened: missed at first (no string with a UTF-8 lead byte directly before a quote, backslash or control character); the byte-sequence family writes every string of up to 2 (quick) / 3 (thorough) bytes over nine byte classes as value and as key',
 'C05-7': 'strengthened: missed at first (a path ending in a bare descent only had the no-panic and determinism oracle); such results must now be, as a multiset, the nodes below the start nodes, each exactly once (with, without, or with the container start nodes)',
 'C05-9': 'a filter-script defect (a multi-valued operand that selects nothing stored as nil instead of Nothing): not caught by C05 (no comparison of an empty multi-valued operand with null in its filter alphabet); caught by C12 (operator x operand-kind matrix)',
 'C06-7': 'strengthened: missed at first by C06 (the BFS merges a token that starts with 0xEF with every other token, and the harness reader panicked on an empty buffer instead of answering 0, nil); C06 gained the byte-order-mark look-ahead family (prefixes of the mark and near misses under every split into reads) and the chunk reader now follows io.Reader for empty buffers and reports 10000 such calls in a row as non-termination. C03 catches it as well',
 'C07-7': 'strengthened: missed at first (Unmarshal was only called on well-formed text); every parser kind and the pooled functions gained Unmarshal on malformed text and on a type mismatch',
 'C07-8': 'strengthened: missed at first (no valid document with a \\uXXXX escape and literals after an aborted escape); a document with escaped keys and values and all three literals added',
 'C07-9': 'a process-wide plan cache keyed wrongly against OmitEmpty: not caught by C07 (instances, not type caches); caught by C15 (first-use history leg) and C08 (plan-cache group)',
 'C08-8': 'strengthened: missed at first (no shared script with a list operand); a script and a filter expression whose list constants hold Go ints and a float32 added, snapshotted as constructed',
 'C08-9': 'strengthened: missed at first (no Unmarshal of malformed text among the concurrent calls); added to the oj and sen parse groups. C07 (pooled kind) catches it as well',
 'C09-8': 'an accept-set defect of oj.Tokenizer (a top-level literal on the slow path followed by a comma): the wrong position is a consequence; caught by C01 (BFS, every byte from every state)',
 'C11-7': 'strengthened: missed at first (the struct forms are flat reflect.StructOf types); an embedded-struct form (x promoted through two levels of embedding) added for paths of child, index and union fragments',
 'C12-8': 'strengthened: missed at first (many-valued operands were anchored at @ only); the operand forms gained a many-valued path anchored at $, evaluated as a filter inside a path where $ is not the element',
 'C14-7': 'strengthened: missed at first (a change in the code added by the repair 2e211bf); regex constants with even and odd runs of backslashes in front of the delimiter added',
 'C15-9': 'strengthened: missed at first (no value reached through two pointers); every one-field type is also written as **T by every encoder and must give the tree written for *T (naming, tags, embedding, BytesAs). This exposed a genuine defect of sen (listed: the fall-back ignores the ,string tag option)',
 'C16-7': 'strengthened: missed at first (no map whose elements are maps or structs by value); three container-of-container field kinds added to the type alphabet shared by C15 and C16',
 'C16-8': 'not caught by C16 (round trips use default options); caught by C15 (UseTags, embedded struct behind another field, pointer pass)',
 'C16-9': 'NOT caught: the change only shows for an embedded struct that itself carries a json tag. The type alphabet shared by C15 and C16 leaves such fields out because ojg flattens them while encoding/json treats them as named fields (a disagreement with the reference that would dominate C15); enumerating them for the round trips of C16 alone was not done for lack of time',
 'C17-8': 'a tokenizer defect (pending high surrogate surviving the end of a string): not caught by C17 (no surrogate escapes in its documents); caught by C02 (string-pair family)',
 'C17-9': 'strengthened: missed at first (targets had at most three fragments, and a failure was written off when a prefix ending in a bare descent failed too); targets with two descents (desc, step, desc, step) added and bare-descent prefixes no longer explain a failure',
 'C18-7': 'the same change as C03-7 proposed independently (gen.Parser): caught by C02',
 'C18-8': 'strengthened: missed at first (the pretty sweep had no Color); the width sweep now runs with and without Color (the colour escapes must not count as width)',
 'C20-9': 'strengthened: missed at first (no observation of aliasing between a result and $.src); functions whose description promises a copy (read from asm.FnDocs: reverse, sort) must return a list that shares no storage with their argument, for lists of length 0 to 3',
 'C13-3': 'strengthened: missed at first (RemoveOne doing nothing is within "at most one location", which the check accepts); the *One forms are now also compared between simple and gen data ("behave the same on simple and gen data")',
 'C17-3': 'not caught by C17 (its documents have plain keys); it is a tokenizer defect: C02 gained the string-pair family (every ordered pair of string items in five two-string placements, so that what one string leaves behind in a front-end shows in the next) and catches it',
 'C19-1': 'strengthened: missed at first; the perturbation catalogue gained rename (same member count, different key set)',
 'C20-1': 'strengthened: missed at first (each has no description in doc.go, asmref does not model it); an item-independence leg compares each(list) with the concatenation of each([item])',
}
ALSO = {'C01-18': 'C07', 'C02-18': 'C07', 'C04-18': 'C07', 'C05-17': 'C12', 'C06-16': 'C01', 'C06-17': 'C03', 'C06-18': 'C07', 'C12-18': 'C14', 'C18-16': 'C02, C18', 'C18-17': 'C03, C18', 'C08-17': 'C08, C07', 'C04-16': 'not caught on the repaired tree (dissolved by the repair bf1653c; caught on the tree it was written for)', 'C10-18': 'not caught on the repaired tree (dissolved by the repair bf1653c; caught on the tree it was written for)', 'C13-15': 'not caught (outside the stated data forms)', 'C16-3': 'C03', 'C10-2': 'C10, C02', 'C17-3': 'C02', 'C01-4': 'C07', 'C03-5': 'C07', 'C09-4': 'C07', 'C02-5': 'C07', 'C06-5': 'C07', 'C04-5': 'C07', 'C10-5': 'C07', 'C05-6': 'C12', 'C08-5': 'C08, C07', 'C17-5': 'C03', 'C17-6': 'C03', 'C12-6': 'C14', 'C14-5': 'C12', 'C16-4': 'C16, C15', 'C16-5': 'C15', 'C18-5': 'C18, C02, C03', 'C13-4': 'not caught (outside the stated data forms)', 'C02-7': 'C07', 'C02-8': 'C07', 'C02-9': 'C03', 'C03-7': 'C02', 'C05-9': 'C12', 'C06-7': 'C06, C03', 'C07-9': 'C15, C08', 'C08-9': 'C08, C07', 'C09-8': 'C01', 'C16-8': 'C15', 'C16-9': 'not caught (tagged embedded fields are outside the type alphabet)', 'C17-8': 'C02', 'C18-7': 'C02'}
verify = {}
for l in open(os.path.join(SRC, 'verify.log')):
    m = re.match(r'(C\d+-\d+): pkg=(\S+) suite_passes_with_change=(\S+) demo_fails_with_change=(\S+) demo_passes_without_change=(\S+) confirmed=(\d)', l)
    if m:
        verify[m.group(1)] = dict(pkg=m.group(2), suite=m.group(3), fails=m.group(4), passes=m.group(5), ok=m.group(6) == '1')
# every verdict recorded for a seed, the latest one per (seed, check) counts
matrix_all = {}
mp = os.path.join(SRC, 'matrix.jsonl')
if os.path.exists(mp):
    for l in open(mp):
        if l.startswith('{'):
            d = json.loads(l)
            if d.get('exit') in (0, 1):
                matrix_all.setdefault(d['seed'], {})[d['check']] = d
n = 0
for sid, v in sorted(verify.items()):
    if not v['ok']:
        continue
    pid, k = sid.split('-')
    src = os.path.join(SRC, pid)
    meta = json.load(open(os.path.join(src, 'meta-%s.json' % k)))
    d = os.path.join(DST, sid)
    os.makedirs(d, exist_ok=True)
    shutil.copy(os.path.join(src, 'patch-%s.diff' % k), os.path.join(d, 'patch.diff'))
    shutil.copy(os.path.join(src, 'demo-%s_test.go' % k), os.path.join(d, 'demo_test.go'))
    recs = matrix_all.get(sid, {})
    catchers = [ck for ck in [pid] + sorted(k for k in recs if k != pid) if recs.get(ck, {}).get('violations', 0) > 0]
    caught = ', '.join(catchers) if catchers else 'MISSED'
    mx = recs.get(catchers[0]) if catchers else recs.get(pid, {})
    if sid in ALSO:
        caught = ALSO[sid]
        first = re.match(r'(C\d\d)', caught)
        if first and first.group(1) in recs:
            mx = recs[first.group(1)]
    out = {
        'id': sid, 'property': pid, 'summary': meta.get('summary', ''), 'needs': meta.get('needs', ''),
        'demo_pkg': v['pkg'], 'demo_cmd': meta.get('demo_cmd', 'copy demo_test.go into %s/ and run go test -vet=off -count=1 -run . ./%s/' % (v['pkg'], v['pkg'])),
        'written_by': 'fresh sub-agent given only the property text and a scratch worktree of /repo',
        'confirmed': {'how': 'tools/seedverify.sh in a scratch worktree of /repo HEAD', 'library_tests_pass_with_change': v['suite'] == 'yes',
                      'demo_fails_with_change': v['fails'] == 'yes', 'demo_passes_without_change': v['passes'] == 'yes'},
        'detection': {'how': 'tools/seedtest.sh %s patch.diff quick (check run against a scratch worktree with the patch applied; /repo untouched)' % (mx.get('check') or pid),
                      'caught_by': caught, 'violations_reported': mx.get('violations'), 'first_signatures': mx.get('sigs', []), 'note': NOTES.get(sid, '')},
    }
    json.dump(out, open(os.path.join(d, 'meta.json'), 'w'), indent=1)
    n += 1
print(n, 'seeded changes collected into', DST)
