#!/bin/bash
# tools/seedverify.sh <Cnn> <n> — confirm a seeded change independently in a scratch worktree:
# (1) the library's own test suite passes with the change, (2) the demonstration fails with it,
# (3) the demonstration passes without it. Prints one line; exit 0 iff all three hold.
ID="$1"; N="$2"; D="/tmp/seed-out/$ID"
export GOFLAGS=-mod=mod GOPROXY=off GOSUMDB=off GOTOOLCHAIN=local
WT="/tmp/seedverify.$$"
git -C /repo worktree add --detach "$WT" HEAD -q || exit 2
trap 'git -C /repo worktree remove --force "$WT" >/dev/null 2>&1' EXIT
PKG=$(python3 -c "import json;print(json.load(open('$D/meta-$N.json')).get('demo_pkg','').strip('/').replace('/tmp/mut-$ID/',''))")
[ -d "$WT/$PKG" ] || PKG=$(grep -m1 -oE '(into|in|to) `?(oj|gen|sen|jp|alt|asm|pretty)/?`?' "$D/demo-${N}_test.go" | grep -oE '(oj|gen|sen|jp|alt|asm|pretty)' | head -1)
RACE=""; grep -q '"sync"' "$D/demo-${N}_test.go" && [ "$ID" = C08 ] && RACE="-race -gcflags=all=-d=checkptr=0"
git -C "$WT" apply "$D/patch-$N.diff" || { echo "$ID-$N: patch does not apply"; exit 2; }
( cd "$WT" && go test -vet=off -count=1 ./... > /tmp/seedverify.$$.suite 2>&1 ); SUITE=$?
cp "$D/demo-${N}_test.go" "$WT/$PKG/zz_seed_demo_test.go"
( cd "$WT" && timeout 300 go test -vet=off -count=1 $RACE -run 'Seed|Demo|C[0-9][0-9]' ./$PKG/ > /tmp/seedverify.$$.with 2>&1 ); WITH=$?
git -C "$WT" checkout -- . 
( cd "$WT" && timeout 300 go test -vet=off -count=1 $RACE -run 'Seed|Demo|C[0-9][0-9]' ./$PKG/ > /tmp/seedverify.$$.without 2>&1 ); WITHOUT=$?
rm -f "$WT/$PKG/zz_seed_demo_test.go"
OK=1; [ $SUITE = 0 ] && [ $WITH != 0 ] && [ $WITHOUT = 0 ] || OK=0
echo "$ID-$N: pkg=$PKG suite_passes_with_change=$([ $SUITE = 0 ] && echo yes || echo NO) demo_fails_with_change=$([ $WITH != 0 ] && echo yes || echo NO) demo_passes_without_change=$([ $WITHOUT = 0 ] && echo yes || echo NO) confirmed=$OK"
rm -f /tmp/seedverify.$$.*
[ $OK = 1 ]
