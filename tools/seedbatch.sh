#!/bin/bash
# tools/seedbatch.sh <Cnn> [tier] — run tools/seedtest.sh for every patch-N.diff under /tmp/seed-out/<Cnn>/
ID="$1"; TIER="${2:-quick}"
for p in /tmp/seed-out/$ID/patch-*.diff; do
  n=$(basename "$p" .diff | sed 's/patch-//')
  out=/tmp/seed-out/$ID/result-$n-$TIER.txt
  SEEDTEST_SHOW=4 "$(dirname "$0")/seedtest.sh" "$ID" "$p" "$TIER" > "$out" 2>&1
  echo "$ID seed $n ($TIER): $(grep 'SEEDTEST violations' "$out") $(grep 'SEEDTEST exit' "$out")"
  grep "  sig=" "$out" | head -2 | cut -c1-170
done
