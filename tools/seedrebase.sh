#!/bin/bash
# tools/seedrebase.sh <patch.diff> — re-creates a seeded patch whose context lines moved (a later fix: commit touched the
# neighbourhood): applies it with fuzz in a scratch worktree of /repo HEAD and rewrites the file with the fresh git diff.
P="$(readlink -f "$1")"; WT=/tmp/seedrebase.$$
git -C /repo apply --check "$P" 2>/dev/null && { echo "applies as is"; exit 0; }
git -C /repo worktree add --detach "$WT" HEAD -q || exit 2
trap 'git -C /repo worktree remove --force "$WT" >/dev/null 2>&1' EXIT
( cd "$WT" && patch -p1 --fuzz=3 --no-backup-if-mismatch < "$P" ) || { echo "cannot rebase"; exit 1; }
( cd "$WT" && git diff ) > "$P.new" && mv "$P.new" "$P" && echo "rebased"
