#!/bin/bash
# tools/seedtest.sh <Cnn> <patch.diff> [tier]  — developer tool: applies a seeded change to a scratch
# worktree of /repo, runs the property's check against it, prints the verdict; /repo is not touched.
set -u
ID="$1"; PATCH="$(readlink -f "$2")"; TIER="${3:-quick}"
WT="/tmp/seedtest.$$"
git -C /repo worktree add --detach "$WT" HEAD -q || exit 2
trap 'git -C /repo worktree remove --force "$WT" >/dev/null 2>&1; rm -rf "/tmp/seedtest-out.$$"' EXIT
if ! git -C "$WT" apply "$PATCH"; then echo "SEEDTEST: patch does not apply"; exit 2; fi
mkdir -p "/tmp/seedtest-out.$$"
VERIF_REPO="$WT" VERIF_OUT="/tmp/seedtest-out.$$" "$(dirname "$0")/../run.sh" "$ID" "$TIER" > "/tmp/seedtest-out.$$/log" 2>&1
RC=$?
grep -c "^VIOLATION" "/tmp/seedtest-out.$$/log" | sed 's/^/SEEDTEST violations: /'
grep "^VIOLATION" "/tmp/seedtest-out.$$/log" | sed 's/.*sig=/  sig=/' | head -${SEEDTEST_SHOW:-6}
tail -1 "/tmp/seedtest-out.$$/log"
echo "SEEDTEST exit=$RC"
exit $RC
