#!/bin/bash
# tools/seed6.sh <Cnn> — sixth round: import the three changes of /tmp/seed6-out/<Cnn> as ids 16..18 (verify + own quick check)
cd "$(dirname "$0")/.."
SEED2_SRC=/tmp/seed6-out SEED_OFFSET=15 tools/seedimport.sh "$1" > /tmp/seed-out/import-$1.log 2>&1
echo "IMPORTED $1" >> /tmp/seed-out/import.done
