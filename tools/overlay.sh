#!/bin/bash
# Generates the go build overlay that routes ojg's use of package sync through the
# vsync shim. Reads /repo's current working tree; writes only under $1 (default /verif/.work/overlay).
set -eu
OUT="${1:-/verif/.work/overlay}"
VERIF="$(cd "$(dirname "$0")/.." && pwd)"
REPO="${VERIF_REPO:-/repo}"
rm -rf "$OUT"; mkdir -p "$OUT"
{
  echo '{"Replace": {'
  echo "  \"$REPO/vsync/vsync.go\": \"$VERIF/internal/vsyncsrc/vsync.go.src\""
  n=0
  for f in $(grep -rlE '^\s*"sync"$' --include='*.go' "$REPO" | grep -v '_test.go' | grep -v "^$REPO/cmd/" | sort); do
    n=$((n+1))
    dst="$OUT/f$n.go.txt"
    sed -E 's#^(\s*)"sync"$#\1sync "github.com/ohler55/ojg/vsync"#' "$f" > "$dst"
    echo "  ,\"$f\": \"$dst\""
  done
  echo '}}'
} > "$OUT/overlay.json"
echo "$OUT/overlay.json"
