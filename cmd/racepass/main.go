// Command racepass runs the C08 call bodies free (no controlled scheduler) so
// that the race detector, built in with -race, can see unsynchronised
// accesses. usage: racepass <group> <goroutines> <iterations>
package main

import (
	"fmt"
	"os"
	"strconv"
	"strings"
	"sync"

	"verif/checks/c08"
)

func main() {
	if len(os.Args) < 4 {
		fmt.Fprintln(os.Stderr, "usage: racepass <group> <goroutines> <iterations>")
		os.Exit(2)
	}
	gor, _ := strconv.Atoi(os.Args[2])
	iter, _ := strconv.Atoi(os.Args[3])
	// the expected results come from one set of shared objects, the concurrent
	// calls use a second, never used set: what is completed on first use is
	// then written while other goroutines read it, and the race detector sees it
	expect := map[string]string{}
	for _, g := range c08.Groups() {
		if g.Name == os.Args[1] {
			for _, o := range g.Ops {
				expect[o.Name], _ = o.Run()
			}
		}
	}
	for _, g := range c08.Groups() {
		if g.Name != os.Args[1] {
			continue
		}
		alone := expect
		planCache := strings.HasPrefix(g.Name, "plan-cache")
		if planCache {
			c08.ResetCaches() // the types are first seen by the concurrent calls, not by the expectation runs above
		}
		var wg sync.WaitGroup
		var mu sync.Mutex
		bad := ""
		for t := 0; t < gor; t++ {
			wg.Add(1)
			go func(t int) {
				defer wg.Done()
				var prevKeep []byte
				var prevText, prevName string
				for i := 0; i < iter; i++ {
					o := g.Ops[(i+t)%len(g.Ops)]
					text, keep := o.Run()
					if text != alone[o.Name] {
						mu.Lock()
						bad = fmt.Sprintf("MISMATCH %s result-differs: %q instead of %q", o.Name, text, alone[o.Name])
						mu.Unlock()
						return
					}
					if prevKeep != nil && !strings.HasPrefix(prevText, string(prevKeep)) {
						mu.Lock()
						bad = fmt.Sprintf("MISMATCH %s buffer-overwritten: %q became %q", prevName, prevText, prevKeep)
						mu.Unlock()
						return
					}
					prevKeep, prevText, prevName = keep, text, o.Name
					if planCache {
						if msg := c08.FreshTypeWrite(t, i); msg != "" {
							mu.Lock()
							bad = "MISMATCH fresh-type result-differs: " + msg
							mu.Unlock()
							return
						}
					}
				}
			}(t)
		}
		wg.Wait()
		if bad != "" {
			fmt.Println(bad)
			os.Exit(3)
		}
		return
	}
	fmt.Fprintln(os.Stderr, "unknown group", os.Args[1])
	os.Exit(2)
}
