// Command dev-c20 is the development dispatcher for check C20 only.
package main

import (
	"fmt"
	"os"
	"strconv"

	"verif/internal/core"

	_ "verif/checks/c20"
)

func main() {
	if len(os.Args) < 2 {
		usage()
	}
	switch os.Args[1] {
	case "run":
		if len(os.Args) < 4 {
			usage()
		}
		os.Exit(core.ParentMain(os.Args[2], os.Args[3]))
	case "worker":
		if len(os.Args) < 6 {
			usage()
		}
		sh, _ := strconv.Atoi(os.Args[4])
		n, _ := strconv.Atoi(os.Args[5])
		os.Exit(core.WorkerMain(os.Args[2], os.Args[3], sh, n))
	case "replay":
		if len(os.Args) < 4 {
			usage()
		}
		os.Exit(core.ReplayMain(os.Args[2], os.Args[3]))
	default:
		usage()
	}
}

func usage() {
	fmt.Fprintln(os.Stderr, "usage: dev-c20 run C20 <quick|thorough> | replay C20 <path>")
	os.Exit(2)
}
