// Command vcheck dispatches the per-property checks.
//
//	vcheck run <Cnn> <quick|thorough>
//	vcheck replay <Cnn> <path>
//	vcheck worker <Cnn> <tier> <shard> <nshards>   (internal)
package main

import (
	"fmt"
	"os"
	"strconv"

	"verif/internal/core"

	_ "verif/checks/c01"
	_ "verif/checks/c02"
	_ "verif/checks/c03"
	_ "verif/checks/c04"
	_ "verif/checks/c05"
	_ "verif/checks/c06"
	_ "verif/checks/c07"
	_ "verif/checks/c08"
	_ "verif/checks/c09"
	_ "verif/checks/c10"
	_ "verif/checks/c11"
	_ "verif/checks/c12"
	_ "verif/checks/c13"
	_ "verif/checks/c14"
	_ "verif/checks/c15"
	_ "verif/checks/c16"
	_ "verif/checks/c17"
	_ "verif/checks/c18"
	_ "verif/checks/c19"
	_ "verif/checks/c20"
)

func main() {
	if len(os.Args) < 2 {
		usage()
	}
	switch os.Args[1] {
	case "run":
		if len(os.Args) < 4 {
			usage()
		}
		os.Exit(core.ParentMain(os.Args[2], os.Args[3]))
	case "worker":
		if len(os.Args) < 6 {
			usage()
		}
		sh, _ := strconv.Atoi(os.Args[4])
		n, _ := strconv.Atoi(os.Args[5])
		os.Exit(core.WorkerMain(os.Args[2], os.Args[3], sh, n))
	case "replay":
		if len(os.Args) < 4 {
			usage()
		}
		os.Exit(core.ReplayMain(os.Args[2], os.Args[3]))
	case "list":
		for _, id := range core.IDs() {
			fmt.Println(id)
		}
	default:
		usage()
	}
}

func usage() {
	fmt.Fprintln(os.Stderr, "usage: vcheck run <Cnn> <quick|thorough> | replay <Cnn> <path> | list")
	os.Exit(2)
}
