// Command vcheck dispatches the per-property checks.
//
//	vcheck run <Cnn> <quick|thorough>
//	vcheck replay <Cnn> <path>
//	vcheck worker <Cnn> <tier> <shard> <nshards>   (internal)
package main

import (
	"fmt"
	"os"
	"strconv"

	"verif/internal/core"

	_ "verif/checks/c02"
)

func main() {
	if len(os.Args) < 2 {
		usage()
	}
	switch os.Args[1] {
	case "run":
		if len(os.Args) < 4 {
			usage()
		}
		os.Exit(core.ParentMain(os.Args[2], os.Args[3]))
	case "worker":
		if len(os.Args) < 6 {
			usage()
		}
		sh, _ := strconv.Atoi(os.Args[4])
		n, _ := strconv.Atoi(os.Args[5])
		os.Exit(core.WorkerMain(os.Args[2], os.Args[3], sh, n))
	case "replay":
		if len(os.Args) < 4 {
			usage()
		}
		os.Exit(core.ReplayMain(os.Args[2], os.Args[3]))
	case "dump": // development aid: run in-process, print every failing signature with its witness
		ck := core.Lookup(os.Args[2])
		c := core.NewCtx(os.Args[3], 0, 1, 0, 0)
		ck.Run(c)
		for sig, f := range c.Failures() {
			fmt.Printf("%s\t%d\t%s\t%s\t%s\n", sig, f.Count, f.Case, f.Exp, f.Obs)
		}
		for _, h := range c.Report().HarnessE {
			fmt.Println("HARNESS", h)
		}
	case "list":
		for _, id := range core.IDs() {
			fmt.Println(id)
		}
	default:
		usage()
	}
}

func usage() {
	fmt.Fprintln(os.Stderr, "usage: vcheck run <Cnn> <quick|thorough> | replay <Cnn> <path> | list")
	os.Exit(2)
}
