// Package gens holds the bounded-exhaustive enumerators shared by the checks.
package gens

// Trees calls fn with every value tree of at most maxNodes nodes, simplest
// first within each size: leaves from leaves, containers []any and
// map[string]any (member keys taken in order from keys, so an object with k
// members always uses keys[0..k-1]; at most len(keys) members). Every call
// gets a freshly built tree (safe to mutate). fn returns false to stop.
func Trees(maxNodes int, leaves []any, keys []string, fn func(t any) bool) {
	for n := 1; n <= maxNodes; n++ {
		if !treesOfSize(n, leaves, keys, func(t any) bool { return fn(Clone(t)) }) {
			return
		}
	}
}

// treesOfSize enumerates trees with exactly n nodes.
func treesOfSize(n int, leaves []any, keys []string, fn func(t any) bool) bool {
	if n == 1 {
		for _, l := range leaves {
			if !fn(l) {
				return false
			}
		}
	}
	// array with children totalling n-1 nodes
	if !forests(n-1, -1, leaves, keys, func(kids []any) bool {
		return fn(append([]any{}, kids...))
	}) {
		return false
	}
	// object with children totalling n-1 nodes
	return forests(n-1, len(keys), leaves, keys, func(kids []any) bool {
		m := make(map[string]any, len(kids))
		for i, k := range kids {
			m[keys[i]] = k
		}
		return fn(m)
	})
}

// forests enumerates ordered sequences of trees with total size total
// (maxLen < 0: unbounded length).
func forests(total, maxLen int, leaves []any, keys []string, fn func(kids []any) bool) bool {
	var rec func(rem int, acc []any) bool
	rec = func(rem int, acc []any) bool {
		if rem == 0 {
			return fn(acc)
		}
		if maxLen >= 0 && len(acc) >= maxLen {
			return true
		}
		for k := 1; k <= rem; k++ {
			ok := treesOfSize(k, leaves, keys, func(t any) bool {
				return rec(rem-k, append(acc[:len(acc):len(acc)], t))
			})
			if !ok {
				return false
			}
		}
		return true
	}
	return rec(total, nil)
}

// Clone deep-copies a tree of []any / map[string]any / scalars.
func Clone(v any) any {
	switch t := v.(type) {
	case []any:
		out := make([]any, len(t))
		for i, e := range t {
			out[i] = Clone(e)
		}
		return out
	case map[string]any:
		out := make(map[string]any, len(t))
		for k, e := range t {
			out[k] = Clone(e)
		}
		return out
	}
	return v
}

// Count returns the number of trees Trees would produce.
func Count(maxNodes int, leaves []any, keys []string) int {
	n := 0
	Trees(maxNodes, leaves, keys, func(any) bool { n++; return true })
	return n
}
