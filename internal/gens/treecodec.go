package gens

import (
	"encoding/json"
	"fmt"
	"math"
	"strconv"
	"strings"
	"time"
)

// EncodeTree turns a value tree into a JSON-marshalable value that keeps the
// Go kind of every leaf, so that a recorded case can be rebuilt exactly by
// DecodeTree. Arrays stay JSON arrays, objects stay JSON objects, every leaf
// becomes a string "kind:text" ("nil" for nil). Supported leaves: nil, bool,
// every int/uint width, float32/float64, string, time.Time, json.Number.
func EncodeTree(v any) any {
	switch t := v.(type) {
	case nil:
		return "nil"
	case []any:
		out := make([]any, len(t))
		for i, e := range t {
			out[i] = EncodeTree(e)
		}
		return out
	case map[string]any:
		out := make(map[string]any, len(t))
		for k, e := range t {
			out[k] = EncodeTree(e)
		}
		return out
	case bool:
		return "bool:" + strconv.FormatBool(t)
	case int:
		return "int:" + strconv.FormatInt(int64(t), 10)
	case int8:
		return "int8:" + strconv.FormatInt(int64(t), 10)
	case int16:
		return "int16:" + strconv.FormatInt(int64(t), 10)
	case int32:
		return "int32:" + strconv.FormatInt(int64(t), 10)
	case int64:
		return "int64:" + strconv.FormatInt(t, 10)
	case uint:
		return "uint:" + strconv.FormatUint(uint64(t), 10)
	case uint8:
		return "uint8:" + strconv.FormatUint(uint64(t), 10)
	case uint16:
		return "uint16:" + strconv.FormatUint(uint64(t), 10)
	case uint32:
		return "uint32:" + strconv.FormatUint(uint64(t), 10)
	case uint64:
		return "uint64:" + strconv.FormatUint(t, 10)
	case float32:
		return "float32:" + strconv.FormatUint(uint64(math.Float32bits(t)), 16) + ":" + strconv.FormatFloat(float64(t), 'g', -1, 32)
	case float64:
		return "float64:" + strconv.FormatUint(math.Float64bits(t), 16) + ":" + strconv.FormatFloat(t, 'g', -1, 64)
	case string:
		return "string:" + t
	case time.Time:
		return "time:" + strconv.FormatInt(t.UnixNano(), 10) + ":" + t.Location().String()
	case json.Number:
		return "number:" + string(t)
	}
	return fmt.Sprintf("unsupported:%T", v)
}

// DecodeTree is the inverse of EncodeTree applied to the result of
// json.Unmarshal into an any.
func DecodeTree(raw any) (any, error) {
	switch t := raw.(type) {
	case []any:
		out := make([]any, len(t))
		for i, e := range t {
			v, err := DecodeTree(e)
			if err != nil {
				return nil, err
			}
			out[i] = v
		}
		return out, nil
	case map[string]any:
		out := make(map[string]any, len(t))
		for k, e := range t {
			v, err := DecodeTree(e)
			if err != nil {
				return nil, err
			}
			out[k] = v
		}
		return out, nil
	case string:
		return decodeLeaf(t)
	}
	return nil, fmt.Errorf("treecodec: unexpected %T", raw)
}

func decodeLeaf(s string) (any, error) {
	if s == "nil" {
		return nil, nil
	}
	i := strings.IndexByte(s, ':')
	if i < 0 {
		return nil, fmt.Errorf("treecodec: bad leaf %q", s)
	}
	kind, txt := s[:i], s[i+1:]
	switch kind {
	case "bool":
		return txt == "true", nil
	case "string":
		return txt, nil
	case "number":
		return json.Number(txt), nil
	case "time":
		parts := strings.SplitN(txt, ":", 2)
		n, err := strconv.ParseInt(parts[0], 10, 64)
		if err != nil {
			return nil, err
		}
		tm := time.Unix(0, n).UTC()
		if len(parts) == 2 && parts[1] != "UTC" {
			if loc, err := time.LoadLocation(parts[1]); err == nil {
				tm = tm.In(loc)
			} else if strings.HasPrefix(parts[1], "fixed") {
				if off, err := strconv.Atoi(strings.TrimPrefix(parts[1], "fixed")); err == nil {
					tm = tm.In(time.FixedZone(parts[1], off))
				}
			}
		}
		return tm, nil
	case "float32":
		parts := strings.SplitN(txt, ":", 2)
		b, err := strconv.ParseUint(parts[0], 16, 32)
		return math.Float32frombits(uint32(b)), err
	case "float64":
		parts := strings.SplitN(txt, ":", 2)
		b, err := strconv.ParseUint(parts[0], 16, 64)
		return math.Float64frombits(b), err
	}
	if strings.HasPrefix(kind, "uint") {
		n, err := strconv.ParseUint(txt, 10, 64)
		if err != nil {
			return nil, err
		}
		switch kind {
		case "uint":
			return uint(n), nil
		case "uint8":
			return uint8(n), nil
		case "uint16":
			return uint16(n), nil
		case "uint32":
			return uint32(n), nil
		case "uint64":
			return n, nil
		}
	}
	if strings.HasPrefix(kind, "int") {
		n, err := strconv.ParseInt(txt, 10, 64)
		if err != nil {
			return nil, err
		}
		switch kind {
		case "int":
			return int(n), nil
		case "int8":
			return int8(n), nil
		case "int16":
			return int16(n), nil
		case "int32":
			return int32(n), nil
		case "int64":
			return n, nil
		}
	}
	return nil, fmt.Errorf("treecodec: unknown leaf kind %q", s)
}

// Show renders a value tree as compact kind-exact text (object keys sorted)
// for messages: 1 is int64, other widths are written as int8(1); 1.5 is
// float64; strings are quoted.
func Show(v any) string {
	var b strings.Builder
	show(&b, v)
	return b.String()
}

func show(b *strings.Builder, v any) {
	switch t := v.(type) {
	case nil:
		b.WriteString("nil")
	case []any:
		if t == nil {
			b.WriteString("nil[]")
			return
		}
		b.WriteByte('[')
		for i, e := range t {
			if i > 0 {
				b.WriteByte(' ')
			}
			show(b, e)
		}
		b.WriteByte(']')
	case map[string]any:
		if t == nil {
			b.WriteString("nil{}")
			return
		}
		keys := make([]string, 0, len(t))
		for k := range t {
			keys = append(keys, k)
		}
		sortStrings(keys)
		b.WriteByte('{')
		for i, k := range keys {
			if i > 0 {
				b.WriteByte(' ')
			}
			b.WriteString(k)
			b.WriteByte(':')
			show(b, t[k])
		}
		b.WriteByte('}')
	case bool:
		b.WriteString(strconv.FormatBool(t))
	case int64:
		b.WriteString(strconv.FormatInt(t, 10))
	case float64:
		s := strconv.FormatFloat(t, 'g', -1, 64)
		if !strings.ContainsAny(s, ".eIN") {
			s += ".0"
		}
		b.WriteString(s)
	case string:
		b.WriteString(strconv.Quote(t))
	case time.Time:
		b.WriteString("time(" + strconv.FormatInt(t.UnixNano(), 10) + " " + t.Location().String() + ")")
	case json.Number:
		b.WriteString("number(" + string(t) + ")")
	default:
		fmt.Fprintf(b, "%T(%v)", v, v)
	}
}

func sortStrings(a []string) {
	for i := 1; i < len(a); i++ {
		for j := i; j > 0 && a[j] < a[j-1]; j-- {
			a[j], a[j-1] = a[j-1], a[j]
		}
	}
}
