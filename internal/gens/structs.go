package gens

// Struct-type enumerator shared by C15 and C16 (DESIGN.md §2.3): struct types
// are built at run time with reflect.StructOf from a field alphabet
// (field kind x tag class); every kind comes with a small list of value
// constructors (zero, non-zero, nil / empty / pointer-to-zero variants).
//
// Field names depend on the position only and are chosen so that the two
// readings of "lower-case key" (first letter only / whole short name) coincide
// and so that no two fields of one struct - flattened embedded ones included -
// can ever produce the same key: a mismatch can always be attributed to one
// field.

import (
	"fmt"
	"reflect"
	"strings"
	"sync"
	"time"
)

// Inner is the named struct used for struct / *struct / interface values.
type Inner struct {
	X int
	Y string
}

// EmbA is a plain embedded struct.
type EmbA struct {
	Ea int
	Eb string
	// scalars that do not sit at offset 0 of the embedded struct (an encoder
	// that loses the offset of a promoted field reads Ea instead)
	Ef float64
	Eh bool
}

// EmbT is an embedded struct whose own fields carry tags and a pointer.
type EmbT struct {
	Ec int `json:"ec,omitempty"`
	Ed string
	Ee *int
}

// Val is one value constructor of a field kind. New returns a fresh value on
// every call (alt.Alter modifies maps and slices in place).
type Val struct {
	Name string // zero | nonzero | nil | empty | ptrzero | struct | typednil
	New  func() reflect.Value
}

// FieldKind is one member of the field-kind alphabet.
type FieldKind struct {
	Name     string // bool, int, ..., embed, embedT, embedptr
	Class    string // coarse class used in signatures
	Type     reflect.Type
	Embedded bool
	EmbName  string // field name when embedded (the type name)
	Vals     []Val  // Vals[0] is the Go zero value
	// Extra kinds are used in one-field types only (AllKinds leaves them out):
	// kinds of value no plan builder has a branch of its own for.
	Extra bool
}

// TagClass is one member of the tag alphabet; %d is replaced by the position.
type TagClass struct {
	Name string
	Fmt  string
}

// Tags is the tag alphabet.
var Tags = []TagClass{
	{"none", ""},
	{"name", `json:"x%d"`},
	{"name,omitempty", `json:"x%d,omitempty"`},
	{",omitempty", `json:",omitempty"`},
	{"-", `json:"-"`},
	{",string", `json:",string"`},
}

func tagText(tag, pos int) string {
	return strings.Replace(Tags[tag].Fmt, "%d", fmt.Sprint(pos), 1)
}

// PosNames are the field names by position.
var PosNames = []string{"Ab", "FieldTwo", "Cz", "Dwxyz"}

func rv(v any) func() reflect.Value { return func() reflect.Value { return reflect.ValueOf(v) } }

func zeroOf(t reflect.Type) func() reflect.Value {
	return func() reflect.Value { return reflect.Zero(t) }
}

// TimeNZ is the non-zero time value.
var TimeNZ = time.Unix(1, 5).UTC()

// Kinds is the field-kind alphabet.
var Kinds = buildKinds()

func buildKinds() []FieldKind {
	var ks []FieldKind
	add := func(name, class string, sample any, vals ...Val) {
		t := reflect.TypeOf(sample)
		ks = append(ks, FieldKind{Name: name, Class: class, Type: t, Vals: append([]Val{{"zero", zeroOf(t)}}, vals...)})
	}
	add("bool", "bool", false, Val{"nonzero", rv(true)})
	add("int", "int", int(0), Val{"nonzero", rv(int(-7))})
	add("int8", "int", int8(0), Val{"nonzero", rv(int8(-8))})
	add("uint16", "int", uint16(0), Val{"nonzero", rv(uint16(65535))})
	add("int64", "int", int64(0), Val{"nonzero", rv(int64(1) << 40)})
	add("float32", "float", float32(0), Val{"nonzero", rv(float32(0.1))}) // not short in 64-bit digits: a widening slip shows (0.10000000149011612)
	add("float64", "float", float64(0), Val{"nonzero", rv(float64(0.1234567890123))}) // not a float32: a 32-bit formatting slip shows
	add("string", "string", "", Val{"nonzero", rv("s")})
	add("bytes", "bytes", []byte(nil),
		Val{"empty", func() reflect.Value { return reflect.ValueOf([]byte{}) }},
		Val{"nonzero", func() reflect.Value { return reflect.ValueOf([]byte("hi")) }})
	add("[]int", "slice", []int(nil),
		Val{"empty", func() reflect.Value { return reflect.ValueOf([]int{}) }},
		Val{"nonzero", func() reflect.Value { return reflect.ValueOf([]int{1, 2}) }})
	add("[2]string", "array", [2]string{}, Val{"nonzero", rv([2]string{"a", "b"})})
	add("map[string]int", "map", map[string]int(nil),
		Val{"empty", func() reflect.Value { return reflect.ValueOf(map[string]int{}) }},
		Val{"nonzero", func() reflect.Value { return reflect.ValueOf(map[string]int{"k": 1}) }})
	// containers of containers and of structs by value: two members with
	// different content (a decoder that reuses one scratch element for all
	// members mixes them up)
	add("map[string]map[string]int", "map", map[string]map[string]int(nil),
		Val{"nonzero", func() reflect.Value {
			return reflect.ValueOf(map[string]map[string]int{"k1": {"a": 1}, "k2": {"b": 2}})
		}})
	add("map[string]struct", "map", map[string]Inner(nil),
		Val{"nonzero", func() reflect.Value {
			return reflect.ValueOf(map[string]Inner{"k1": {X: 1}, "k2": {Y: "y"}})
		}})
	add("[]struct", "slice", []Inner(nil),
		Val{"nonzero", func() reflect.Value { return reflect.ValueOf([]Inner{{X: 1}, {Y: "y"}}) }})
	// pointers as elements and members, nil ones among them ("a nil pointer anywhere")
	add("[]*struct", "slice", []*Inner(nil),
		Val{"nonzero", func() reflect.Value { return reflect.ValueOf([]*Inner{nil, {X: 1}}) }})
	add("map[string]*struct", "map", map[string]*Inner(nil),
		Val{"nonzero", func() reflect.Value { return reflect.ValueOf(map[string]*Inner{"k1": nil, "k2": {Y: "y"}}) }})
	add("*int", "ptr", (*int)(nil),
		Val{"ptrzero", func() reflect.Value { i := 0; return reflect.ValueOf(&i) }},
		Val{"nonzero", func() reflect.Value { i := 7; return reflect.ValueOf(&i) }})
	add("*struct", "ptrstruct", (*Inner)(nil),
		Val{"ptrzero", func() reflect.Value { return reflect.ValueOf(&Inner{}) }},
		Val{"nonzero", func() reflect.Value { return reflect.ValueOf(&Inner{X: 1, Y: "y"}) }})
	add("struct", "struct", Inner{}, Val{"nonzero", rv(Inner{X: 1, Y: "y"})})
	anyT := reflect.TypeOf((*any)(nil)).Elem()
	inAny := func(v any) func() reflect.Value {
		return func() reflect.Value {
			x := reflect.New(anyT).Elem()
			x.Set(reflect.ValueOf(v))
			return x
		}
	}
	ks = append(ks, FieldKind{Name: "any", Class: "iface", Type: anyT, Vals: []Val{
		{"zero", zeroOf(anyT)},
		{"typednil", inAny((*Inner)(nil))},
		{"struct", inAny(Inner{X: 1, Y: "y"})},
		{"nonzero", inAny(1.5)},
	}})
	add("[]any", "slice", []any(nil),
		Val{"empty", func() reflect.Value { return reflect.ValueOf([]any{}) }},
		Val{"nonzero", func() reflect.Value { return reflect.ValueOf([]any{"s", nil, 2.5}) }})
	add("map[string]any", "map", map[string]any(nil),
		Val{"empty", func() reflect.Value { return reflect.ValueOf(map[string]any{}) }},
		Val{"nonzero", func() reflect.Value { return reflect.ValueOf(map[string]any{"k": "v", "n": 1.5}) }})
	add("time", "time", time.Time{}, Val{"nonzero", rv(TimeNZ)})
	// embedded kinds
	emb := func(name, class, embName string, sample any, vals ...Val) {
		t := reflect.TypeOf(sample)
		ks = append(ks, FieldKind{Name: name, Class: class, Type: t, Embedded: true, EmbName: embName,
			Vals: append([]Val{{"zero", zeroOf(t)}}, vals...)})
	}
	emb("embed", "embed", "EmbA", EmbA{}, Val{"nonzero", rv(EmbA{Ea: 1, Eb: "e", Ef: 0.1234567890123, Eh: true})})
	emb("embedT", "embed", "EmbT", EmbT{}, Val{"nonzero", func() reflect.Value { i := 5; return reflect.ValueOf(EmbT{Ec: 2, Ed: "d", Ee: &i}) }})
	emb("embedptr", "embedptr", "EmbA", (*EmbA)(nil), Val{"ptrzero", func() reflect.Value { return reflect.ValueOf(&EmbA{}) }}, Val{"nonzero", func() reflect.Value { return reflect.ValueOf(&EmbA{Ea: 1, Eb: "e", Ef: 0.1234567890123, Eh: true}) }})
	// extra kinds (one-field types only)
	extra := func(name, class string, sample any, vals ...Val) {
		add(name, class, sample, vals...)
		ks[len(ks)-1].Extra = true
	}
	extra("map[int]int", "intkeymap", map[int]int(nil),
		Val{"nonzero", func() reflect.Value { return reflect.ValueOf(map[int]int{7: 1}) }})
	extra("map[string]string", "stringmap", map[string]string(nil),
		Val{"nonzero", func() reflect.Value { return reflect.ValueOf(map[string]string{"e": "", "k": "v"}) }})
	return ks
}

// KindIndex finds a kind by name (-1 when absent).
func KindIndex(name string) int {
	for i, k := range Kinds {
		if k.Name == name {
			return i
		}
	}
	return -1
}

// FieldSpec is one (kind, tag) letter.
type FieldSpec struct {
	Kind int `json:"k"`
	Tag  int `json:"t"`
}

// StructSpec is a field sequence.
type StructSpec []FieldSpec

// FieldAlphabet lists every admissible (kind, tag) letter: all tags for plain
// kinds, no tag for embedded kinds (a tagged embedded field is a named field
// for encoding/json and is ignored by ojg; outside the common feature set).
func FieldAlphabet(kinds []int) []FieldSpec {
	var out []FieldSpec
	for _, k := range kinds {
		if Kinds[k].Embedded {
			out = append(out, FieldSpec{k, 0})
			continue
		}
		for t := range Tags {
			out = append(out, FieldSpec{k, t})
		}
	}
	return out
}

// AllKinds returns the indexes of every kind.
func AllKinds() []int {
	var out []int
	for i, k := range Kinds {
		if !k.Extra {
			out = append(out, i)
		}
	}
	return out
}

// ExtraKinds lists the kinds used in one-field types only.
func ExtraKinds() []int {
	var out []int
	for i, k := range Kinds {
		if k.Extra {
			out = append(out, i)
		}
	}
	return out
}

// (Named basic types as field types were tried here and taken out again: on the
// unchanged tree every encoder fails on them when the struct is passed by value
// (defects/C15-1), in fourteen signatures that all end in the kind of the field,
// which the prefix form of a listed finding cannot name.)

// ThinKinds is one kind per plan-builder branch (used for 3-field types).
func ThinKinds() []int {
	var out []int
	for _, n := range []string{"bool", "int64", "float32", "string", "bytes", "map[string]int", "*int", "*struct", "struct", "any", "time", "embedT"} {
		out = append(out, KindIndex(n))
	}
	return out
}

// ThinTags are the tag classes used for 3-field types.
var ThinTags = []int{0, 2, 5}

// Valid reports whether the field sequence can be built (no two embedded
// fields with the same name).
func (s StructSpec) Valid() bool {
	seen := map[string]bool{}
	for _, f := range s {
		k := Kinds[f.Kind]
		if k.Embedded {
			if seen[k.EmbName] {
				return false
			}
			seen[k.EmbName] = true
		}
	}
	return len(s) <= len(PosNames)
}

// FieldName is the Go name of field i.
func (s StructSpec) FieldName(i int) string {
	if k := Kinds[s[i].Kind]; k.Embedded {
		return k.EmbName
	}
	return PosNames[i]
}

// TagName is the name part of field i's tag ("" when the tag has none).
func (s StructSpec) TagName(i int) string {
	if strings.HasPrefix(Tags[s[i].Tag].Name, "name") {
		return fmt.Sprintf("x%d", i)
	}
	return ""
}

func (s StructSpec) String() string {
	var parts []string
	for i, f := range s {
		p := s.FieldName(i) + " " + Kinds[f.Kind].Name
		if f.Tag != 0 {
			p += " `" + tagText(f.Tag, i) + "`"
		}
		parts = append(parts, p)
	}
	return "struct{" + strings.Join(parts, "; ") + "}"
}

var (
	typeMu    sync.Mutex
	typeCache = map[string]reflect.Type{}
)

// Type builds (and caches) the reflect type.
func (s StructSpec) Type() reflect.Type {
	key := fmt.Sprint([]FieldSpec(s))
	typeMu.Lock()
	defer typeMu.Unlock()
	if t := typeCache[key]; t != nil {
		return t
	}
	fs := make([]reflect.StructField, len(s))
	for i, f := range s {
		k := Kinds[f.Kind]
		fs[i] = reflect.StructField{Name: s.FieldName(i), Type: k.Type, Anonymous: k.Embedded}
		if f.Tag != 0 {
			fs[i].Tag = reflect.StructTag(tagText(f.Tag, i))
		}
	}
	t := reflect.StructOf(fs)
	typeCache[key] = t
	return t
}

// ForgetTypes drops the spec -> type cache (reflect keeps the types).
func ForgetTypes() {
	typeMu.Lock()
	typeCache = map[string]reflect.Type{}
	typeMu.Unlock()
}

// NewValue builds an addressable value of the type with field i set to its
// value number vals[i]; the result is the pointer (reflect.Value of kind Ptr).
func (s StructSpec) NewValue(vals []int) reflect.Value {
	return s.NewValueOf(s.Type(), vals)
}

// NewValueOf is NewValue with the type already at hand.
func (s StructSpec) NewValueOf(t reflect.Type, vals []int) reflect.Value {
	p := reflect.New(t)
	for i, f := range s {
		p.Elem().Field(i).Set(Kinds[f.Kind].Vals[vals[i]].New())
	}
	return p
}

// ValueNames renders the value choice.
func (s StructSpec) ValueNames(vals []int) []string {
	out := make([]string, len(s))
	for i, f := range s {
		out[i] = Kinds[f.Kind].Vals[vals[i]].Name
	}
	return out
}

// ValueChoices enumerates value index vectors: the full product of the value
// lists when full is true, otherwise the product of {first, last} per field.
func (s StructSpec) ValueChoices(full bool) [][]int {
	out := [][]int{{}}
	for _, f := range s {
		n := len(Kinds[f.Kind].Vals)
		var idx []int
		if full || n <= 2 {
			for i := 0; i < n; i++ {
				idx = append(idx, i)
			}
		} else {
			idx = []int{0, n - 1}
		}
		var next [][]int
		for _, pre := range out {
			for _, i := range idx {
				next = append(next, append(append([]int{}, pre...), i))
			}
		}
		out = next
	}
	return out
}

// Specs enumerates every valid field sequence of exactly n letters over the
// alphabet, in lexicographic order, calling fn with its running index.
func Specs(alpha []FieldSpec, n int, fn func(idx int, s StructSpec)) int {
	idx := 0
	cur := make(StructSpec, n)
	var rec func(pos int)
	rec = func(pos int) {
		if pos == n {
			if cur.Valid() {
				fn(idx, append(StructSpec{}, cur...))
				idx++
			}
			return
		}
		for _, a := range alpha {
			cur[pos] = a
			rec(pos + 1)
		}
	}
	rec(0)
	return idx
}
