package gens

import "testing"

func TestCounts(t *testing.T) {
	// one leaf, one key: sizes 1: leaf, [], {} ; size 2: [leaf] [[]] [{}] {k:leaf} {k:[]} {k:{}}
	if n := Count(1, []any{1}, []string{"a"}); n != 3 {
		t.Fatalf("size1 %d", n)
	}
	if n := Count(2, []any{1}, []string{"a"}); n != 3+6 {
		t.Fatalf("size2 %d", n)
	}
	seen := map[string]bool{}
	Trees(4, []any{nil, 1}, []string{"a", "b"}, func(v any) bool {
		k := dump(v)
		if seen[k] {
			t.Fatalf("duplicate %s", k)
		}
		seen[k] = true
		return true
	})
}

func dump(v any) string {
	switch t := v.(type) {
	case []any:
		s := "["
		for _, e := range t {
			s += dump(e) + ","
		}
		return s + "]"
	case map[string]any:
		s := "{"
		for _, k := range []string{"a", "b", "c"} {
			if e, ok := t[k]; ok {
				s += k + ":" + dump(e) + ","
			}
		}
		return s + "}"
	case nil:
		return "nil"
	}
	return "1"
}
