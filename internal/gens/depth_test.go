package gens

import "testing"

func TestDeepDocs(t *testing.T) {
	all := PathData(3)
	deep := DeepDocs(all, 2)
	t.Logf("PathData(3): %d documents, %d nested at least 2 deep; PathData(4): %d; alphabets %d / %d", len(all), len(deep), len(PathData(4)), len(Paths(true).Frags), len(Paths(false).Frags))
	if len(deep) == 0 || len(deep) >= len(all) {
		t.Errorf("unexpected split %d / %d", len(deep), len(all))
	}
	if TreeDepth(int64(1)) != 0 || TreeDepth([]any{}) != 1 || TreeDepth([]any{map[string]any{"a": int64(1)}}) != 2 {
		t.Errorf("TreeDepth")
	}
}
