package gens

// JSON-serialisable descriptions of jp expressions and equations and their
// construction through the public jp constructors only (used by C12 and C14;
// every identifier here carries the JP prefix).

import (
	"fmt"
	"regexp"

	"github.com/ohler55/ojg/jp"

	"verif/internal/ref/scriptref"
)

// JPMember is one union member: a string key or an index.
type JPMember struct {
	S *scriptref.QS `json:"s,omitempty"`
	I *int64        `json:"i,omitempty"`
}

// JPFrag describes one fragment of a jp.Expr.
type JPFrag struct {
	K   string          `json:"k"` // root at bracket child nth wild desc union slice filter
	Key scriptref.QS    `json:"key,omitempty"`
	N   int             `json:"n,omitempty"`
	U   []JPMember      `json:"u,omitempty"`
	S   []int           `json:"s,omitempty"`
	F   *scriptref.Node `json:"f,omitempty"`
}

// JPExpr describes a jp.Expr.
type JPExpr []JPFrag

// JPChild etc. build fragment descriptions.
func JPChild(k string) JPFrag { return JPFrag{K: "child", Key: scriptref.QS(k)} }

// JPNth describes Nth(n).
func JPNth(n int) JPFrag { return JPFrag{K: "nth", N: n} }

// JPSlice describes Slice(s...).
func JPSlice(s ...int) JPFrag { return JPFrag{K: "slice", S: s} }

// JPFilter describes a filter fragment.
func JPFilter(n *scriptref.Node) JPFrag { return JPFrag{K: "filter", F: n} }

// JPUnion describes a union of string and int members.
func JPUnion(members ...any) JPFrag {
	f := JPFrag{K: "union"}
	for _, m := range members {
		switch t := m.(type) {
		case string:
			q := scriptref.QS(t)
			f.U = append(f.U, JPMember{S: &q})
		case int:
			i := int64(t)
			f.U = append(f.U, JPMember{I: &i})
		}
	}
	return f
}

// JPSimple describes the fragments without arguments.
func JPSimple(kind string) JPFrag { return JPFrag{K: kind} }

// Build constructs the expression with the public builder methods.
func (x JPExpr) Build() jp.Expr {
	out := jp.X()
	for _, f := range x {
		switch f.K {
		case "root":
			out = out.Root()
		case "at":
			out = out.At()
		case "bracket":
			out = out.B()
		case "child":
			out = out.Child(string(f.Key))
		case "nth":
			out = out.Nth(f.N)
		case "wild":
			out = out.Wildcard()
		case "desc":
			out = out.Descent()
		case "union":
			var keys []any
			for _, m := range f.U {
				if m.S != nil {
					keys = append(keys, string(*m.S))
				} else {
					keys = append(keys, *m.I)
				}
			}
			out = out.Union(keys...)
		case "slice":
			out = out.Slice(f.S[0], f.S[1:]...)
		case "filter":
			out = out.Filter(JPEquation(f.F, false))
		default:
			panic("JPExpr.Build: unknown fragment kind " + f.K)
		}
	}
	return out
}

// JPPath builds the jp.Expr of an operand path.
func JPPath(p *scriptref.Path) jp.Expr {
	x := jp.A()
	if p.Root {
		x = jp.R()
	}
	for _, st := range p.Steps {
		switch {
		case st.Key != nil:
			x = x.Child(string(*st.Key))
		case st.Idx != nil:
			x = x.Nth(*st.Idx)
		case st.Wild:
			x = x.Wildcard()
		case st.Desc:
			x = x.Descent()
		case st.Filter != nil:
			x = x.Filter(JPEquation(st.Filter, false))
		}
	}
	return x
}

func jpListValue(s scriptref.VSpec, goInt bool) any {
	switch s.T {
	case "int":
		if goInt {
			return int(s.I)
		}
		return s.I
	case "list":
		out := make([]any, 0, len(s.L))
		for _, e := range s.L {
			out = append(out, jpListValue(e, goInt))
		}
		return out
	case "regex":
		return regexp.MustCompile(string(s.S))
	case "nothing":
		return jp.Nothing
	}
	return s.Value()
}

// JPConst builds the constant equation; goInt makes the integers inside a
// list constant plain Go ints (what jp.ConstList([]any{1,"a"}) gives).
func JPConst(s scriptref.VSpec, goInt bool) *jp.Equation {
	switch s.T {
	case "nil":
		return jp.ConstNil()
	case "bool":
		return jp.ConstBool(s.B)
	case "int":
		return jp.ConstInt(s.I)
	case "float":
		return jp.ConstFloat(s.F)
	case "str":
		return jp.ConstString(string(s.S))
	case "nothing":
		return jp.ConstNothing()
	case "regex":
		return jp.ConstRegex(regexp.MustCompile(string(s.S)))
	case "list":
		return jp.ConstList(jpListValue(s, goInt).([]any))
	}
	panic("JPConst: a " + s.T + " cannot be a script constant")
}

// JPEquation builds the equation through the public constructors.
func JPEquation(n *scriptref.Node, goInt bool) *jp.Equation {
	switch {
	case n.Const != nil:
		return JPConst(*n.Const, goInt)
	case n.Path != nil:
		return jp.Get(JPPath(n.Path))
	}
	switch n.Op {
	case "length", "count":
		if n.L.Path == nil {
			panic(fmt.Sprintf("JPEquation: %s takes a path", n.Op))
		}
		if n.Op == "length" {
			return jp.Length(JPPath(n.L.Path))
		}
		return jp.Count(JPPath(n.L.Path))
	case "!":
		return jp.Not(JPEquation(n.L, goInt))
	}
	l, r := JPEquation(n.L, goInt), JPEquation(n.R, goInt)
	switch n.Op {
	case "==":
		return jp.Eq(l, r)
	case "!=":
		return jp.Neq(l, r)
	case "<":
		return jp.Lt(l, r)
	case ">":
		return jp.Gt(l, r)
	case "<=":
		return jp.Lte(l, r)
	case ">=":
		return jp.Gte(l, r)
	case "||":
		return jp.Or(l, r)
	case "&&":
		return jp.And(l, r)
	case "+":
		return jp.Add(l, r)
	case "-":
		return jp.Sub(l, r)
	case "*":
		return jp.Multiply(l, r)
	case "/":
		return jp.Divide(l, r)
	case "in":
		return jp.In(l, r)
	case "empty":
		return jp.Empty(l, r)
	case "has":
		return jp.Has(l, r)
	case "exists":
		return jp.Exists(l, r)
	case "~=":
		return jp.Regex(l, r)
	case "match":
		return jp.Match(l, r)
	case "search":
		return jp.Search(l, r)
	}
	panic("JPEquation: unknown operator " + n.Op)
}

// JPPanicKind classifies a recovered panic value for signatures.
func JPPanicKind(r any) string {
	s := fmt.Sprint(r)
	if e, ok := r.(error); ok {
		s = e.Error()
	}
	for _, k := range []string{"comparing uncomparable", "index out of range", "nil pointer", "slice bounds",
		"interface conversion", "nil map", "divide by zero", "not terminated", "parse error", "is not a valid operation",
		"is not a value or function", "can not start with", "invalid bracket fragment", "invalid union syntax",
		"invalid slice syntax", "expected a number", "not a valid escaped", "not a valid hexadecimal", "expected a comma",
		"expected a", "error parsing regexp", "stack overflow"} {
		if idx := indexOf(s, k); idx >= 0 {
			return k
		}
	}
	// unknown message: keep only its data-free head
	for _, cut := range []string{" at ", "'", "0x", ":"} {
		if idx := indexOf(s, cut); idx > 0 {
			s = s[:idx]
		}
	}
	if len(s) > 40 {
		s = s[:40]
	}
	return s
}

func indexOf(s, sub string) int {
	for i := 0; i+len(sub) <= len(s); i++ {
		if s[i:i+len(sub)] == sub {
			return i
		}
	}
	return -1
}
