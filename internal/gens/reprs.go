package gens

// Equivalent representations of a simple value tree for the JSONPath checks
// (C11, C13): gen nodes, typed Go slices, Go arrays, structs and pointers to
// structs built with reflect.StructOf, and the harness's own ordered
// jp.Keyed / jp.Indexed collections. Canon maps every representation back to
// the simple form. No code is shared with ojg's evaluators.

import (
	"reflect"
	"sort"
	"strings"

	"github.com/ohler55/ojg"
	"github.com/ohler55/ojg/alt"
	"github.com/ohler55/ojg/gen"
)

// OrdKeyed is an object with an explicit key order; it implements jp.Keyed.
type OrdKeyed struct {
	Order []string
	Vals  map[string]any
}

// ValueForKey implements jp.Keyed.
func (k *OrdKeyed) ValueForKey(key string) (any, bool) { v, ok := k.Vals[key]; return v, ok }

// SetValueForKey implements jp.Keyed (a new key goes to the end).
func (k *OrdKeyed) SetValueForKey(key string, value any) {
	if _, ok := k.Vals[key]; !ok {
		k.Order = append(k.Order, key)
	}
	k.Vals[key] = value
}

// RemoveValueForKey implements jp.Keyed.
func (k *OrdKeyed) RemoveValueForKey(key string) {
	if _, ok := k.Vals[key]; !ok {
		return
	}
	delete(k.Vals, key)
	for i, o := range k.Order {
		if o == key {
			k.Order = append(k.Order[:i:i], k.Order[i+1:]...)
			break
		}
	}
}

// Keys implements jp.Keyed: a fresh slice in the collection's own order.
func (k *OrdKeyed) Keys() []string { return append([]string{}, k.Order...) }

// OrdIndexed is an array-like collection; it implements jp.Indexed and
// jp.RemovableIndexed.
type OrdIndexed struct {
	Vals []any
}

// ValueAtIndex implements jp.Indexed.
func (x *OrdIndexed) ValueAtIndex(i int) any {
	if i < 0 || len(x.Vals) <= i {
		return nil
	}
	return x.Vals[i]
}

// SetValueAtIndex implements jp.Indexed.
func (x *OrdIndexed) SetValueAtIndex(i int, v any) {
	if 0 <= i && i < len(x.Vals) {
		x.Vals[i] = v
	}
}

// Size implements jp.Indexed.
func (x *OrdIndexed) Size() int { return len(x.Vals) }

// RemoveValueAtIndex implements jp.RemovableIndexed.
func (x *OrdIndexed) RemoveValueAtIndex(i int) {
	if 0 <= i && i < len(x.Vals) {
		x.Vals = append(x.Vals[:i:i], x.Vals[i+1:]...)
	}
}

// Repr is one representation of a tree.
type Repr struct {
	Name  string // simple gen typed array struct pstruct keyed:<orders> indexed
	Value any
}

// CountMultiKeyMaps counts the objects with two or more members.
func CountMultiKeyMaps(v any) int {
	n := 0
	switch t := v.(type) {
	case []any:
		for _, e := range t {
			n += CountMultiKeyMaps(e)
		}
	case map[string]any:
		if len(t) > 1 {
			n++
		}
		for _, e := range t {
			n += CountMultiKeyMaps(e)
		}
	}
	return n
}

func hasKind(v any, arr bool) bool {
	switch t := v.(type) {
	case []any:
		if arr {
			return true
		}
		for _, e := range t {
			if hasKind(e, arr) {
				return true
			}
		}
	case map[string]any:
		if !arr {
			return true
		}
		for _, e := range t {
			if hasKind(e, arr) {
				return true
			}
		}
	}
	return false
}

// HasArray / HasObject report whether the tree holds a container of the kind.
func HasArray(v any) bool  { return hasKind(v, true) }
func HasObject(v any) bool { return hasKind(v, false) }

// ToGen converts the tree with alt.Generify (C18 checks that conversion).
// null members are kept (the alt package drops them by default).
func ToGen(v any) gen.Node { return alt.Generify(v, &genKeepNil) }

var genKeepNil = func() ojg.Options { o := ojg.DefaultOptions; o.OmitNil = false; return o }()

var anyType = reflect.TypeOf((*any)(nil)).Elem()

// typedSeq builds a slice (array=false) or Go array (array=true) from the
// converted children: []T / [n]T when all children share one dynamic type,
// []any / [n]any otherwise (and for empty sequences).
func typedSeq(kids []any, array bool) any {
	et := anyType
	if len(kids) > 0 && kids[0] != nil {
		et = reflect.TypeOf(kids[0])
		for _, k := range kids[1:] {
			if k == nil || reflect.TypeOf(k) != et {
				et = anyType
				break
			}
		}
	}
	var rv reflect.Value
	if array {
		rv = reflect.New(reflect.ArrayOf(len(kids), et)).Elem()
	} else {
		if et == anyType {
			return kids
		}
		rv = reflect.MakeSlice(reflect.SliceOf(et), len(kids), len(kids))
	}
	for i, k := range kids {
		if k != nil {
			rv.Index(i).Set(reflect.ValueOf(k))
		}
	}
	return rv.Interface()
}

// ToTyped turns every homogeneous array node into a typed slice ([]int64,
// [][]any, []map[string]any, [][]int64 ...); objects stay map[string]any.
func ToTyped(v any) any {
	switch t := v.(type) {
	case []any:
		kids := make([]any, len(t))
		for i, e := range t {
			kids[i] = ToTyped(e)
		}
		return typedSeq(kids, false)
	case map[string]any:
		out := make(map[string]any, len(t))
		for k, e := range t {
			out[k] = ToTyped(e)
		}
		return out
	}
	return v
}

// ToArrays turns every array node into a Go array ([n]T when homogeneous,
// [n]any otherwise); objects stay map[string]any.
func ToArrays(v any) any {
	switch t := v.(type) {
	case []any:
		kids := make([]any, len(t))
		for i, e := range t {
			kids[i] = ToArrays(e)
		}
		return typedSeq(kids, true)
	case map[string]any:
		out := make(map[string]any, len(t))
		for k, e := range t {
			out[k] = ToArrays(e)
		}
		return out
	}
	return v
}

// IdentKeys reports whether every object key of the tree is a lower-case
// identifier (so that it can become an exported struct field).
func IdentKeys(v any) bool {
	switch t := v.(type) {
	case []any:
		for _, e := range t {
			if !IdentKeys(e) {
				return false
			}
		}
	case map[string]any:
		for k, e := range t {
			if k == "" || k[0] < 'a' || 'z' < k[0] || !IdentKeys(e) {
				return false
			}
			for i := 1; i < len(k); i++ {
				if c := k[i]; !('a' <= c && c <= 'z' || '0' <= c && c <= '9') {
					return false
				}
			}
		}
	}
	return true
}

func sortedKeysOf(m map[string]any) []string {
	ks := make([]string, 0, len(m))
	for k := range m {
		ks = append(ks, k)
	}
	sort.Strings(ks)
	return ks
}

// ToStructs turns every object into a struct built with reflect.StructOf:
// key "a" becomes the exported field A with the tag json:"a" (fields in
// sorted key order). ptr=false: struct values whose fields have type any and
// arrays stay []any. ptr=true: pointers to structs whose fields have the
// concrete type of the member, arrays become typed slices where homogeneous.
func ToStructs(v any, ptr bool) any {
	switch t := v.(type) {
	case []any:
		kids := make([]any, len(t))
		for i, e := range t {
			kids[i] = ToStructs(e, ptr)
		}
		if ptr {
			return typedSeq(kids, false)
		}
		return kids
	case map[string]any:
		keys := sortedKeysOf(t)
		kids := make([]any, len(keys))
		fields := make([]reflect.StructField, len(keys))
		for i, k := range keys {
			kids[i] = ToStructs(t[k], ptr)
			ft := anyType
			if ptr && kids[i] != nil {
				ft = reflect.TypeOf(kids[i])
			}
			fields[i] = reflect.StructField{Name: strings.ToUpper(k[:1]) + k[1:], Type: ft, Tag: reflect.StructTag(`json:"` + k + `"`)}
		}
		pv := reflect.New(reflect.StructOf(fields))
		for i, kid := range kids {
			if kid != nil {
				pv.Elem().Field(i).Set(reflect.ValueOf(kid))
			}
		}
		if ptr {
			return pv.Interface()
		}
		return pv.Elem().Interface()
	}
	return v
}

// ToKeyed turns every object into an *OrdKeyed. orders selects the key order
// of the i-th multi-key object met in depth-first, sorted-key order: bit i of
// orders set = descending keys, clear = ascending. indexed also turns every
// array into an *OrdIndexed.
func ToKeyed(v any, orders uint, indexed bool) any {
	n := 0
	var conv func(v any) any
	conv = func(v any) any {
		switch t := v.(type) {
		case []any:
			kids := make([]any, len(t))
			for i, e := range t {
				kids[i] = conv(e)
			}
			if indexed {
				return &OrdIndexed{Vals: kids}
			}
			return kids
		case map[string]any:
			keys := sortedKeysOf(t)
			desc := false
			if len(keys) > 1 {
				desc = orders>>uint(n)&1 == 1
				n++
			}
			vals := make(map[string]any, len(t))
			for _, k := range keys {
				vals[k] = conv(t[k])
			}
			if desc {
				for i, j := 0, len(keys)-1; i < j; i, j = i+1, j-1 {
					keys[i], keys[j] = keys[j], keys[i]
				}
			}
			return &OrdKeyed{Order: keys, Vals: vals}
		}
		return v
	}
	return conv(v)
}

// EmbX, EmbMid and EmbTop are the embedded-struct representation of an object
// with the members a and x: x is promoted through two levels of embedding.
type EmbX struct{ X any }
type EmbMid struct {
	EmbX
}
type EmbTop struct {
	EmbMid
	A any
}

// ToEmbedded turns an object that has exactly the members a and x into a
// *EmbTop (member values stay as they are); ok=false for anything else.
func ToEmbedded(v any) (any, bool) {
	m, isMap := v.(map[string]any)
	if !isMap || len(m) != 2 {
		return nil, false
	}
	a, hasA := m["a"]
	x, hasX := m["x"]
	if !hasA || !hasX {
		return nil, false
	}
	return &EmbTop{EmbMid: EmbMid{EmbX: EmbX{X: x}}, A: a}, true
}

// Reprs lists the representations of the tree that differ from the simple
// form (which comes first).
func Reprs(v any) []Repr {
	out := []Repr{{"simple", v}, {"gen", ToGen(v)}}
	arr, obj := HasArray(v), HasObject(v)
	if arr {
		out = append(out, Repr{"typed", ToTyped(v)}, Repr{"array", ToArrays(v)})
	}
	if obj && IdentKeys(v) {
		out = append(out, Repr{"struct", ToStructs(v, false)}, Repr{"pstruct", ToStructs(v, true)})
	}
	if e, ok := ToEmbedded(v); ok {
		// promoted fields are looked up by name: only paths of child, index and
		// union fragments are evaluated on this form (see C11)
		out = append(out, Repr{"embstruct", e})
	}
	if obj {
		k := CountMultiKeyMaps(v)
		if k > 4 {
			k = 4
		}
		for o := uint(0); o < 1<<uint(k); o++ {
			name := "keyed"
			if k > 0 {
				name += ":" + strings.Repeat("0", k-len(bits(o))) + bits(o)
			}
			out = append(out, Repr{name, ToKeyed(v, o, false)})
		}
	}
	if arr {
		out = append(out, Repr{"indexed", ToKeyed(v, 0, true)})
	}
	return out
}

func bits(o uint) string {
	if o == 0 {
		return "0"
	}
	s := ""
	for ; o > 0; o >>= 1 {
		s = string(rune('0'+o&1)) + s
	}
	return s
}

// ReprFamily strips the key-order suffix of a representation name.
func ReprFamily(name string) string {
	if i := strings.IndexByte(name, ':'); i >= 0 {
		return name[:i]
	}
	return name
}

// BuildRepr builds the named representation (for replay).
func BuildRepr(v any, name string) (any, bool) {
	for _, r := range Reprs(v) {
		if r.Name == name {
			return r.Value, true
		}
	}
	return nil, false
}

// Canon maps a value of any representation back to the simple form: gen
// nodes, typed slices, arrays, structs (field "A" -> key "a"), pointers,
// OrdKeyed / OrdIndexed; every integer kind becomes int64 and every float
// kind float64.
func Canon(v any) any {
	switch t := v.(type) {
	case nil:
		return nil
	case int64, string, bool, float64:
		return v
	case []any:
		out := make([]any, len(t))
		for i, e := range t {
			out[i] = Canon(e)
		}
		return out
	case map[string]any:
		out := make(map[string]any, len(t))
		for k, e := range t {
			out[k] = Canon(e)
		}
		return out
	case gen.Int:
		return int64(t)
	case gen.Float:
		return float64(t)
	case gen.String:
		return string(t)
	case gen.Bool:
		return bool(t)
	case gen.Array:
		out := make([]any, len(t))
		for i, e := range t {
			out[i] = Canon(e)
		}
		return out
	case gen.Object:
		out := make(map[string]any, len(t))
		for k, e := range t {
			out[k] = Canon(e)
		}
		return out
	case *OrdKeyed:
		if t == nil {
			return nil
		}
		out := make(map[string]any, len(t.Vals))
		for k, e := range t.Vals {
			out[k] = Canon(e)
		}
		return out
	case *OrdIndexed:
		if t == nil {
			return nil
		}
		out := make([]any, len(t.Vals))
		for i, e := range t.Vals {
			out[i] = Canon(e)
		}
		return out
	}
	rv := reflect.ValueOf(v)
	switch rv.Kind() {
	case reflect.Ptr, reflect.Interface:
		if rv.IsNil() {
			return nil
		}
		return Canon(rv.Elem().Interface())
	case reflect.Slice, reflect.Array:
		out := make([]any, rv.Len())
		for i := range out {
			out[i] = Canon(rv.Index(i).Interface())
		}
		return out
	case reflect.Map:
		out := make(map[string]any, rv.Len())
		for _, k := range rv.MapKeys() {
			out[k.String()] = Canon(rv.MapIndex(k).Interface())
		}
		return out
	case reflect.Struct:
		out := make(map[string]any, rv.NumField())
		rt := rv.Type()
		for i := 0; i < rv.NumField(); i++ {
			name := rt.Field(i).Name
			if rt.Field(i).Anonymous {
				// an embedded struct: its fields are promoted (as in encoding/json)
				if m, ok := Canon(rv.Field(i).Interface()).(map[string]any); ok {
					for k, e := range m {
						out[k] = e
					}
					continue
				}
			}
			out[strings.ToLower(name[:1])+name[1:]] = Canon(rv.Field(i).Interface())
		}
		return out
	case reflect.Int, reflect.Int8, reflect.Int16, reflect.Int32, reflect.Int64:
		return rv.Int()
	case reflect.Uint, reflect.Uint8, reflect.Uint16, reflect.Uint32, reflect.Uint64:
		return int64(rv.Uint())
	case reflect.Float32, reflect.Float64:
		return rv.Float()
	}
	return v
}
