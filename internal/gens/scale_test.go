package gens

import (
	"encoding/json"
	"reflect"
	"testing"
)

func normNum(v any) any {
	switch t := v.(type) {
	case float64:
		return int64(t)
	case []any:
		for i := range t {
			t[i] = normNum(t[i])
		}
	case map[string]any:
		for k := range t {
			t[k] = normNum(t[k])
		}
	}
	return v
}

func TestScaleDocs(t *testing.T) {
	docs := ScaleDocs(false)
	if len(docs) != 15*9+24*4 {
		t.Fatalf("%d documents", len(docs))
	}
	for _, d := range docs {
		txt := ScaleJSON(d.Tree)
		var back any
		if err := json.Unmarshal(txt, &back); err != nil {
			t.Fatalf("%s: %v", d.Name, err)
		}
		if !reflect.DeepEqual(normNum(back), d.Tree) {
			t.Fatalf("%s: text does not denote the tree", d.Name)
		}
		again, ok := ScaleByName(d.Name)
		if !ok || !reflect.DeepEqual(again, d.Tree) {
			t.Fatalf("%s: not rebuilt from its name", d.Name)
		}
	}
	if len(ScaleString(4096)) != 4096 || len(ScaleTree("stresc", 64).([]any)[0].(string)) != 64 {
		t.Fatal("lengths")
	}
}
