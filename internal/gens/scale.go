package gens

import (
	"fmt"
	"strings"
)

// Scale family: documents whose element count, member count, nesting depth or
// string length crosses the fixed capacities the code starts with (container
// stacks of 16 / 32 / 64, maps of 8, token buffers of 32, write buffers of
// 1024, read buffers of 4096). Small-scope enumeration never reaches these, and
// the places where a slice is grown, a buffer is flushed or a second code path
// takes over are places of their own. One document per shape and size on both
// sides of every limit; the shapes are the simplest that put that many things
// on the structure in question.

// ScaleCounts are the element / member / depth counts: around every power of
// two from 8 to 128.
var ScaleCounts = []int{7, 8, 9, 15, 16, 17, 31, 32, 33, 63, 64, 65, 127, 128, 129}

// ScaleLengths are the string lengths: the counts, and the buffer sizes 256,
// 1024 and 4096.
var ScaleLengths = []int{7, 8, 9, 15, 16, 17, 31, 32, 33, 63, 64, 65, 127, 128, 129, 255, 256, 257, 1023, 1024, 1025, 4095, 4096, 4097}

// ScaleDoc is one document of the family.
type ScaleDoc struct {
	Name string // shape:size
	Tree any
}

// ScaleString is the plain string of length n used by the family (letters and
// digits only, a different byte at neighbouring positions, so a dropped,
// doubled or misplaced byte shows).
func ScaleString(n int) string {
	const alpha = "abcdefghijklmnopqrstuvwxyz0123456789"
	b := make([]byte, n)
	for i := range b {
		b[i] = alpha[i%len(alpha)]
	}
	return string(b)
}

func scaleKey(i int) string { return fmt.Sprintf("k%03d", i) }

// ScaleTree builds one shape at one size. Shapes:
//
//	arr      [0 1 2 ... n-1]
//	arrarr   [[0] [1] ... [n-1]]
//	arrobj   [{a:0} {a:1} ... ]
//	obj      {k000:0 k001:1 ...}
//	objarr   {k000:[0] k001:[1] ...}
//	deeparr  n arrays inside each other around 1
//	deepobj  n objects inside each other around 1
//	deepalt  alternating
//	deepsib  n levels, every level [0 <child> 2] or {a:0 b:<child> c:2}, alternating
//	str      one plain string of length n, in an array
//	stresc   the same with a line feed in front (the slow string path of the parsers, an escape for the writers)
//	key      an object whose one member name has length n
//	keyesc   the same with a line feed in front
func ScaleTree(shape string, n int) any {
	iv := func(i int) any { return int64(i) }
	switch shape {
	case "arr":
		a := make([]any, n)
		for i := range a {
			a[i] = iv(i)
		}
		return a
	case "arrarr":
		a := make([]any, n)
		for i := range a {
			a[i] = []any{iv(i)}
		}
		return a
	case "arrobj":
		a := make([]any, n)
		for i := range a {
			a[i] = map[string]any{"a": iv(i)}
		}
		return a
	case "obj":
		m := make(map[string]any, n)
		for i := 0; i < n; i++ {
			m[scaleKey(i)] = iv(i)
		}
		return m
	case "objarr":
		m := make(map[string]any, n)
		for i := 0; i < n; i++ {
			m[scaleKey(i)] = []any{iv(i)}
		}
		return m
	case "deeparr":
		return Chain("arr", n, iv(1))
	case "deepobj":
		return Chain("obj", n, iv(1))
	case "deepalt":
		return Chain("alt", n, iv(1))
	case "deepsib":
		var v any = iv(1)
		for l := n; l >= 1; l-- {
			if l%2 == 1 {
				v = []any{iv(0), v, iv(2)}
			} else {
				v = map[string]any{"a": iv(0), "b": v, "c": iv(2)}
			}
		}
		return v
	case "str":
		return []any{ScaleString(n)}
	case "stresc":
		return []any{"\n" + ScaleString(n-1)}
	case "key":
		return map[string]any{ScaleString(n): iv(1)}
	case "keyesc":
		return map[string]any{"\n" + ScaleString(n-1): iv(1)}
	}
	panic("gens.ScaleTree: unknown shape " + shape)
}

// ScaleCountShapes / ScaleLengthShapes name the shapes of the two size lists.
var (
	ScaleCountShapes  = []string{"arr", "arrarr", "arrobj", "obj", "objarr", "deeparr", "deepobj", "deepalt", "deepsib"}
	ScaleLengthShapes = []string{"str", "stresc", "key", "keyesc"}
)

// ScaleDocs is the whole family (15 x 9 + 24 x 4 = 231 documents); with small
// set only the sizes up to 65 (and lengths up to 257) are kept.
func ScaleDocs(small bool) []ScaleDoc {
	var out []ScaleDoc
	for _, sh := range ScaleCountShapes {
		for _, n := range ScaleCounts {
			if small && n > 65 {
				continue
			}
			out = append(out, ScaleDoc{Name: fmt.Sprintf("%s:%d", sh, n), Tree: ScaleTree(sh, n)})
		}
	}
	for _, sh := range ScaleLengthShapes {
		for _, n := range ScaleLengths {
			if small && n > 257 {
				continue
			}
			out = append(out, ScaleDoc{Name: fmt.Sprintf("%s:%d", sh, n), Tree: ScaleTree(sh, n)})
		}
	}
	return out
}

// ScaleByName rebuilds a document of the family from its name (for replays).
func ScaleByName(name string) (any, bool) {
	i := strings.IndexByte(name, ':')
	if i < 0 {
		return nil, false
	}
	var n int
	if _, err := fmt.Sscanf(name[i+1:], "%d", &n); err != nil || n < 1 || n > 1<<16 {
		return nil, false
	}
	sh := name[:i]
	for _, s := range append(append([]string{}, ScaleCountShapes...), ScaleLengthShapes...) {
		if s == sh {
			return ScaleTree(sh, n), true
		}
	}
	return nil, false
}

// ScaleJSON renders a tree of the family as compact JSON text with object
// members in ascending name order, without going through any ojg writer (the
// parser checks must not depend on the writers they are not about).
func ScaleJSON(v any) []byte {
	var b []byte
	return scaleJSON(b, v)
}

func scaleJSON(b []byte, v any) []byte {
	switch t := v.(type) {
	case nil:
		return append(b, "null"...)
	case bool:
		if t {
			return append(b, "true"...)
		}
		return append(b, "false"...)
	case int64:
		return append(b, fmt.Sprintf("%d", t)...)
	case string:
		b = append(b, '"')
		for i := 0; i < len(t); i++ {
			switch c := t[i]; {
			case c == '\n':
				b = append(b, '\\', 'n')
			case c == '"' || c == '\\':
				b = append(b, '\\', c)
			case c < 0x20:
				b = append(b, fmt.Sprintf("\\u%04x", c)...)
			default:
				b = append(b, c)
			}
		}
		return append(b, '"')
	case []any:
		b = append(b, '[')
		for i, e := range t {
			if i > 0 {
				b = append(b, ',')
			}
			b = scaleJSON(b, e)
		}
		return append(b, ']')
	case map[string]any:
		b = append(b, '{')
		for i, k := range sortedKeysOf(t) {
			if i > 0 {
				b = append(b, ',')
			}
			b = scaleJSON(b, k)
			b = append(b, ':')
			b = scaleJSON(b, t[k])
		}
		return append(b, '}')
	}
	panic(fmt.Sprintf("gens.ScaleJSON: unexpected %T", v))
}

// WideDocs are the documents of the JSONPath checks that put more entries on an
// evaluator's stack than the 64 it starts with while other containers are still
// waiting below: a list of 66 objects and a list of 66 numbers, each with a
// short sibling before and after it (what is pending when the stack is grown
// must still be there afterwards), as array elements and as object members.
func WideDocs() []any {
	objs := func(n int) []any {
		a := make([]any, n)
		for i := range a {
			a[i] = map[string]any{"x": int64(i % 3)}
		}
		return a
	}
	nums := func(n int) []any {
		a := make([]any, n)
		for i := range a {
			a[i] = int64(i % 3)
		}
		return a
	}
	short := func() []any { return []any{map[string]any{"x": int64(1)}, map[string]any{"x": int64(2)}} }
	return []any{
		[]any{short(), objs(66), short()},
		map[string]any{"a": objs(66), "x": short()},
		[]any{[]any{int64(1), int64(2)}, nums(66), []any{int64(2), int64(1)}},
		[]any{map[string]any{"a": nums(66)}, map[string]any{"a": []any{int64(1)}}, map[string]any{"x": nums(65)}},
	}
}
