package gens

import (
	"reflect"
	"testing"
)

// Every representation of every corpus document maps back to the document.
func TestReprsCanonRoundTrip(t *testing.T) {
	n := 0
	for _, d := range PathData(4) {
		for _, r := range Reprs(d) {
			n++
			if got := Canon(r.Value); !reflect.DeepEqual(got, d) {
				t.Errorf("%s form of %s canonicalises to %s", r.Name, Show(d), Show(got))
			}
		}
	}
	if n < 1000 {
		t.Errorf("only %d representations built", n)
	}
}

func TestReprShapes(t *testing.T) {
	i := func(n int) any { return int64(n) }
	d := []any{[]any{i(1), i(2)}, map[string]any{"a": i(1), "x": []any{}}}
	if _, ok := ToTyped([]any{i(1), i(2)}).([]int64); !ok {
		t.Errorf("typed: %T", ToTyped([]any{i(1), i(2)}))
	}
	if _, ok := ToArrays([]any{i(1), i(2)}).([2]int64); !ok {
		t.Errorf("array: %T", ToArrays([]any{i(1), i(2)}))
	}
	if _, ok := ToTyped([]any{[]any{i(1), "s"}, []any{i(2), "t"}}).([][]any); !ok {
		t.Errorf("typed nested: %T", ToTyped([]any{[]any{i(1), "s"}, []any{i(2), "t"}}))
	}
	st := ToStructs(map[string]any{"a": i(1), "x": i(2)}, false)
	rt := reflect.TypeOf(st)
	if rt.Kind() != reflect.Struct || rt.NumField() != 2 || rt.Field(0).Name != "A" || rt.Field(1).Tag.Get("json") != "x" {
		t.Errorf("struct: %v", rt)
	}
	if pt := reflect.TypeOf(ToStructs(map[string]any{"a": i(1)}, true)); pt.Kind() != reflect.Ptr || pt.Elem().Field(0).Type.Kind() != reflect.Int64 {
		t.Errorf("pstruct: %v", pt)
	}
	var names []string
	for _, r := range Reprs(d) {
		names = append(names, r.Name)
	}
	want := []string{"simple", "gen", "typed", "array", "struct", "pstruct", "keyed:0", "keyed:1", "indexed"}
	if !reflect.DeepEqual(names, want) {
		t.Errorf("representations %v, want %v", names, want)
	}
	k := ToKeyed(map[string]any{"a": i(1), "x": i(2)}, 1, false).(*OrdKeyed)
	if !reflect.DeepEqual(k.Keys(), []string{"x", "a"}) {
		t.Errorf("keyed order %v", k.Keys())
	}
	k.RemoveValueForKey("x")
	k.SetValueForKey("z", i(3))
	if !reflect.DeepEqual(k.Keys(), []string{"a", "z"}) {
		t.Errorf("keyed after edit %v", k.Keys())
	}
}
