package gens

// Categorical coordinates of path fragments for the signatures of the
// JSONPath checks C11 and C13, and location keys.

import (
	"strconv"
	"strings"

	"verif/internal/ref/scriptref"
)

// BoundClass classifies an index or slice bound relative to the length n of
// the array it is applied to.
func BoundClass(b, n int, omitted bool) string {
	switch {
	case omitted:
		return "omitted"
	case b < -n:
		return "<-len"
	case b == -n && n > 0:
		return "-len"
	case b < 0:
		return "neg"
	case b == 0:
		return "0"
	case b < n:
		return "mid"
	case b == n:
		return "len"
	}
	return ">len"
}

// StepClass classifies a slice step.
func StepClass(s int) string {
	switch {
	case s == 0:
		return "0"
	case s <= -2:
		return "<=-2"
	case s == -1:
		return "-1"
	case s == 1:
		return "1"
	}
	return ">=2"
}

// NodeKind names the container kind of a simple node and its length.
func NodeKind(v any) (string, int) {
	switch t := v.(type) {
	case []any:
		return "array", len(t)
	case map[string]any:
		return "object", len(t)
	}
	return "scalar", 0
}

// sliceClass is the coarse class of a slice applied to an array of length n:
// the sign of the step, the sign of each bound (an omitted end is its own
// class) and whether a bound lies outside the array (start < -n or >= n, end
// < -n or > n). One defect of a bound normalisation then shows in a handful
// of cells instead of one per magnitude relation.
func sliceClass(f JPFrag, n int) string {
	st, en, sp := SliceParts(f)
	sign := func(b int) string {
		if b < 0 {
			return "neg"
		}
		return "nonneg"
	}
	step := "+"
	switch {
	case sp == 0:
		step = "0"
	case sp < 0:
		step = "-"
	}
	end, rng := sign(en), "inside"
	if en == MaxEnd {
		end = "omitted"
	} else if en < -n || n < en {
		rng = "outside"
	}
	if st < -n || n <= st {
		rng = "outside"
	}
	return "step=" + step + ",start=" + sign(st) + ",end=" + end + ",range=" + rng
}

// ReprClass groups the representation families by the code that evaluates
// them: simple, gen, keyed, indexed, and reflect (typed slices, arrays,
// structs, pointers to structs).
func ReprClass(name string) string {
	switch f := ReprFamily(name); f {
	case "typed", "array", "struct", "pstruct", "embstruct":
		return "reflect"
	default:
		return f
	}
}

// SliceParts returns start, end, step of a slice fragment description.
func SliceParts(f JPFrag) (st, en, sp int) {
	st, en, sp = 0, MaxEnd, 1
	if len(f.S) > 0 {
		st = f.S[0]
	}
	if len(f.S) > 1 {
		en = f.S[1]
	}
	if len(f.S) > 2 {
		sp = f.S[2]
	}
	return
}

// FragBound renders the bound class of a fragment applied to the simple node
// it is evaluated on ("-" for fragments without bounds).
func FragBound(f JPFrag, node any) string {
	kind, n := NodeKind(node)
	switch f.K {
	case "nth":
		return BoundClass(f.N, n, false) + "@" + kind
	case "slice":
		return sliceClass(f, n) + "@" + kind
	case "union":
		seen := map[string]bool{}
		var ms []string
		for _, m := range f.U {
			c := "key"
			if m.S == nil {
				c = "idx:" + BoundClass(int(*m.I), n, false)
			}
			if !seen[c] {
				seen[c] = true
				ms = append(ms, c)
			}
		}
		sortStrings(ms)
		return strings.Join(ms, "+") + "@" + kind
	case "filter":
		if nestedRootFilter(f.F) {
			return "nested-filter-reads-$@" + kind
		}
	}
	return "@" + kind
}

// LocKey renders a normalised location (string keys, non-negative ints).
func LocKey(loc []any) string {
	var b strings.Builder
	for _, p := range loc {
		b.WriteByte('/')
		switch t := p.(type) {
		case string:
			b.WriteString(t)
		case int:
			b.WriteString(strconv.Itoa(t))
		case int64:
			b.WriteString(strconv.FormatInt(t, 10))
		}
	}
	return b.String()
}

// HasFrag reports whether the expression holds a fragment of the kind.
func (x JPExpr) HasFrag(kind string) bool {
	for _, f := range x {
		if f.K == kind {
			return true
		}
	}
	return false
}

func nodeUsesRoot(n *scriptref.Node) bool {
	if n == nil {
		return false
	}
	if n.Path != nil && n.Path.Root {
		return true
	}
	if n.Path != nil {
		for _, st := range n.Path.Steps {
			if nodeUsesRoot(st.Filter) { // a nested filter that reads the document
				return true
			}
		}
	}
	return nodeUsesRoot(n.L) || nodeUsesRoot(n.R)
}

// nestedRootFilter reports whether the script holds a nested filter with a
// $-rooted operand.
// NestedRootFilter reports whether the fragment is a filter that holds a nested
// filter with a $-rooted operand.
func (f JPFrag) NestedRootFilter() bool { return f.K == "filter" && nestedRootFilter(f.F) }

func nestedRootFilter(n *scriptref.Node) bool {
	if n == nil {
		return false
	}
	if n.Path != nil {
		for _, st := range n.Path.Steps {
			if nodeUsesRoot(st.Filter) || nestedRootFilter(st.Filter) {
				return true
			}
		}
	}
	return nestedRootFilter(n.L) || nestedRootFilter(n.R)
}

// RootFilter reports whether the fragment is a filter with a $-rooted
// operand (its verdict depends on the whole document, so a case holding one
// cannot be re-rooted at a sub-document when it is shrunk).
func (f JPFrag) RootFilter() bool { return f.K == "filter" && nodeUsesRoot(f.F) }

// TreeDepth is the nesting depth of a document: 0 for a scalar, 1 for a
// container of scalars (or an empty one), and so on.
func TreeDepth(v any) int {
	d := 0
	switch t := v.(type) {
	case []any:
		d = 1
		for _, e := range t {
			if x := 1 + TreeDepth(e); x > d {
				d = x
			}
		}
	case map[string]any:
		d = 1
		for _, e := range t {
			if x := 1 + TreeDepth(e); x > d {
				d = x
			}
		}
	}
	return d
}

// DeepDocs keeps the documents nested at least min deep.
func DeepDocs(docs []any, min int) []any {
	var out []any
	for _, d := range docs {
		if TreeDepth(d) >= min {
			out = append(out, d)
		}
	}
	return out
}
