package gens

import (
	"verif/internal/ref/scriptref"
)

// PathAlphabet is the fragment alphabet of the JSONPath checks (C05, C11, C13,
// C17): fragments are serialisable descriptions (JPFrag) so that cases can be
// replayed; Build() turns a sequence into a jp.Expr through the public
// constructors.
type PathAlphabet struct {
	Frags []JPFrag
	Class []string // child nth wild desc union slice filter (parallel to Frags)
}

func (a *PathAlphabet) add(class string, fs ...JPFrag) {
	for _, f := range fs {
		a.Frags = append(a.Frags, f)
		a.Class = append(a.Class, class)
	}
}

// MaxEnd is jp's encoding of an omitted slice end.
const MaxEnd = int(^uint(0) >> 1)

// FilterScripts are the filter scripts of the path alphabet: boolean-valued
// at the top, @-relative, on the keys / values the data corpus uses.
func FilterScripts() []*scriptref.Node {
	return []*scriptref.Node{
		scriptref.B(">", scriptref.P(scriptref.K("x")), scriptref.C(int64(1))),
		scriptref.B("==", scriptref.P(scriptref.K("a")), scriptref.C(int64(1))),
		scriptref.B("==", scriptref.P(), scriptref.C(int64(2))),
		scriptref.B("||", scriptref.B("==", scriptref.P(scriptref.K("x")), scriptref.C(int64(1))), scriptref.B("==", scriptref.P(scriptref.K("a")), scriptref.C(int64(2)))),
		scriptref.B("==", scriptref.P(scriptref.K("a"), scriptref.I(0)), scriptref.C(int64(1))),
		// two multi-valued operands: true if ANY combination is equal (the cross product, not the diagonal)
		scriptref.B("==", scriptref.P(scriptref.K("a"), scriptref.W()), scriptref.P(scriptref.K("x"), scriptref.W())),
		// a $-rooted operand: the member of the document, not of the element
		scriptref.B("==", scriptref.P(scriptref.K("x")), scriptref.RP(scriptref.K("x"))),
		// a $-rooted operand that reads the list being filtered (when the document is that list):
		// an evaluator that edits the list while it filters changes its own verdicts
		scriptref.B("==", scriptref.P(), scriptref.RP(scriptref.I(0))),
	}
}

// NestedRootScript is a filter script with a $-rooted operand inside a nested
// filter: $ is the document there too, not the element of the outer filter
// (used by C05 only; the mutation and streaming checks would report the same
// defect of the evaluator under their own names).
func NestedRootScript() *scriptref.Node {
	return scriptref.B("==", scriptref.P(scriptref.K("a"), scriptref.Step{Filter: scriptref.B("==", scriptref.P(), scriptref.RP(scriptref.K("x")))}), scriptref.C(int64(2)))
}

// AddFilter appends a filter fragment to the alphabet.
func (a *PathAlphabet) AddFilter(n *scriptref.Node) *PathAlphabet {
	a.add("filter", JPFilter(n))
	return a
}

// Paths builds the alphabet. full selects the wide slice / index sets
// (quick tier with paths of <= 2 fragments); otherwise a thinned set with one
// representative per bound class (thorough tier, <= 3 fragments).
func Paths(full bool) *PathAlphabet {
	a := &PathAlphabet{}
	a.add("child", JPChild("a"), JPChild("x"), JPChild("z"))
	idx := []int{-6, -5, -4, -3, -2, -1, 0, 1, 2, 3, 4, 5}
	if !full {
		idx = []int{-5, -2, -1, 0, 1, 3, 5}
	}
	for _, i := range idx {
		a.add("nth", JPNth(i))
	}
	a.add("wild", JPSimple("wild"))
	a.add("desc", JPSimple("desc"))
	a.add("union", JPUnion("a"), JPUnion("a", "x"), JPUnion(0), JPUnion(1, 0), JPUnion(-1, "a"), JPUnion("x", 2, "a", 0), JPUnion(5, "z"),
		// members counted from the end, inside and below the arrays of the corpus (lengths 0..5); no two
		// members of one union ever name the same element (a location named twice is a subject of its own)
		JPUnion(-5, 1), JPUnion(-2, -6))
	starts := []int{-5, -2, -1, 0, 1, 3, 5}
	ends := []int{-5, -2, -1, 0, 2, 4, 5, MaxEnd}
	steps := []int{1, 2, 3, -1, -2, -3, 0}
	if !full {
		starts = []int{-5, -1, 0, 1, 5}
		ends = []int{-5, -1, 2, MaxEnd}
		steps = []int{1, 2, -1, -2, 0}
	}
	for _, s := range starts {
		for _, e := range ends {
			for _, st := range steps {
				switch {
				case st == 1 && e == MaxEnd:
					a.add("slice", JPSlice(s)) // [s:]
				case st == 1:
					a.add("slice", JPSlice(s, e))
				default:
					a.add("slice", JPSlice(s, e, st))
				}
			}
		}
	}
	for _, n := range FilterScripts() {
		a.add("filter", JPFilter(n))
	}
	return a
}

// EachPath calls fn with every sequence of 1..k fragments (a leading root is
// added by the caller when it builds the expression). fn returns false to stop.
func (a *PathAlphabet) EachPath(k int, fn func(idx []int) bool) {
	var rec func(prefix []int) bool
	rec = func(prefix []int) bool {
		if len(prefix) > 0 {
			if !fn(prefix) {
				return false
			}
		}
		if len(prefix) == k {
			return true
		}
		for i := range a.Frags {
			if !rec(append(prefix, i)) {
				return false
			}
		}
		return true
	}
	rec(nil)
}

// Expr returns the description of root + the fragments at idx.
func (a *PathAlphabet) Expr(idx []int) JPExpr {
	x := JPExpr{JPSimple("root")}
	for _, i := range idx {
		x = append(x, a.Frags[i])
	}
	return x
}

// PathData is the data corpus of the JSONPath checks: every tree of at most
// maxNodes nodes over the leaves {1, 2} and the keys a, x, plus hand-made
// larger documents in which every fragment kind selects something (arrays of
// length 4 and 5 holding scalars, arrays and objects, three levels deep).
func PathData(maxNodes int) []any {
	var out []any
	Trees(maxNodes, []any{int64(1), int64(2)}, []string{"a", "x"}, func(t any) bool {
		out = append(out, t)
		return true
	})
	i := func(n int) any { return int64(n) }
	o := func(kv ...any) map[string]any {
		m := map[string]any{}
		for j := 0; j+1 < len(kv); j += 2 {
			m[kv[j].(string)] = kv[j+1]
		}
		return m
	}
	out = append(out,
		[]any{i(1), i(2), i(1), i(2)},
		[]any{i(1), i(2), i(3), i(4), i(5)},
		[]any{[]any{i(1), i(2)}, []any{i(2)}, o("x", i(2)), i(1), o("a", i(1), "x", i(1))},
		o("a", []any{o("x", i(1)), o("x", i(2)), o("x", i(3), "a", []any{i(1), i(2)})}, "x", o("a", []any{i(1), i(2), i(3), i(4)})),
		[]any{o("a", []any{i(1)}), o("a", []any{i(2), i(1)}, "x", i(2)), []any{o("x", i(1)), o("x", i(2))}},
		o("a", o("a", o("a", i(1), "x", i(2)), "x", []any{i(2), i(1)})),
		[]any{o("a", []any{i(1), i(2)}, "x", []any{i(2), i(3)}), o("a", []any{i(1), i(2)}, "x", []any{i(3), i(4)}), o("a", []any{i(1), i(2), i(3), i(4)}, "x", []any{i(5), i(4)})},
		o("x", i(2), "a", []any{o("x", i(1)), o("x", i(2)), o("x", i(3))}),
		// several parents with several hits each and no object with two members:
		// the order of every result is defined
		[]any{[]any{i(1), i(2), i(3)}, []any{i(2), i(3)}, []any{i(3)}},
		[]any{o("a", []any{i(1), i(2)}), o("a", []any{i(2), i(3)}), o("a", []any{i(3)})},
		// null members: present, and not the same as absent
		[]any{nil, i(1), nil, i(2)},
		o("a", nil, "x", []any{nil, o("a", nil)}),
		[]any{o("a", nil), o("x", nil), []any{nil}},
		// the other literals
		[]any{true, false, o("a", false), o("x", []any{true})},
	)
	return out
}

// HasMultiKeyMap reports whether the tree holds an object with two or more
// members (Go map order is then not controlled: compare such results as multisets).
func HasMultiKeyMap(v any) bool {
	switch t := v.(type) {
	case []any:
		for _, e := range t {
			if HasMultiKeyMap(e) {
				return true
			}
		}
	case map[string]any:
		if len(t) > 1 {
			return true
		}
		for _, e := range t {
			if HasMultiKeyMap(e) {
				return true
			}
		}
	}
	return false
}

// WidePaths is the small alphabet used on WideDocs with paths of up to three
// fragments: one fragment of every kind and bound sign.
func WidePaths() *PathAlphabet {
	a := &PathAlphabet{}
	a.add("child", JPChild("a"), JPChild("x"))
	a.add("nth", JPNth(0), JPNth(1), JPNth(-1))
	a.add("wild", JPSimple("wild"))
	a.add("desc", JPSimple("desc"))
	a.add("union", JPUnion(1, 0), JPUnion("x", "a"))
	a.add("slice", JPSlice(1), JPSlice(0, 2), JPSlice(-2), JPSlice(-1, 0, -1))
	a.add("filter", JPFilter(FilterScripts()[0]), JPFilter(FilterScripts()[2]))
	return a
}
