package gens

import (
	"encoding/json"
	"math"
	"reflect"
	"testing"
	"time"
)

func TestTreeCodecRoundTrip(t *testing.T) {
	tm := time.Unix(1700000000, 123456789).UTC()
	tree := map[string]any{
		"a": []any{nil, true, false, int(1), int8(-2), int16(3), int32(4), int64(math.MinInt64), uint(5), uint8(6), uint16(7), uint32(8), uint64(math.MaxUint64)},
		"b": []any{float32(1.5), float64(5e-324), math.Copysign(0, -1), "", "x:y", tm, json.Number("1e999")},
		"c": map[string]any{"d": []any{}, "e": map[string]any{}},
	}
	raw, err := json.Marshal(EncodeTree(tree))
	if err != nil {
		t.Fatal(err)
	}
	var back any
	if err := json.Unmarshal(raw, &back); err != nil {
		t.Fatal(err)
	}
	got, err := DecodeTree(back)
	if err != nil {
		t.Fatal(err)
	}
	if !reflect.DeepEqual(tree, got) {
		t.Fatalf("round trip changed the tree:\n%#v\n%#v", tree, got)
	}
	if s := Show([]any{int64(1), int8(1), 1.0, "s", nil, map[string]any{"b": 2.5, "a": true}}); s != `[1 int8(1) 1.0 "s" nil {a:true b:2.5}]` {
		t.Fatalf("Show: %s", s)
	}
}
