package gens

import "strings"

// Shape families shared by the writer checks (C04, C10): single-child chains
// that run past the writers' fixed indentation strings, and row/column tables
// with every pattern of missing cells for the aligning pretty writer.

// ChainDepths are the nesting depths of the chain family: around the start,
// around 32 (tabs string), around 64 (64 x indent 2 = spaces string) and 130.
var ChainDepths = []int{1, 2, 3, 4, 5, 29, 30, 31, 32, 33, 62, 63, 64, 65, 66, 67, 130}

// Chain nests leaf in depth single-child containers: kind "arr" (arrays),
// "obj" (objects with the one key "a") or "alt" (alternating, array outermost).
func Chain(kind string, depth int, leaf any) any {
	v := leaf
	for d := depth; d >= 1; d-- {
		if kind == "arr" || (kind == "alt" && d%2 == 1) {
			v = []any{v}
		} else {
			v = map[string]any{"a": v}
		}
	}
	return v
}

// Chains enumerates the chain family over the given innermost leaves.
func Chains(leaves []any, fn func(t any) bool) {
	for _, d := range ChainDepths {
		for _, kind := range []string{"arr", "obj", "alt"} {
			for _, leaf := range leaves {
				if !fn(Chain(kind, d, Clone(leaf))) {
					return
				}
			}
		}
	}
}

// IndentDepths are the depths at which depth x indent crosses the fixed tables
// of blanks (128) and tabs (32) the writers slice their indentation from, for
// the indents of IndentValues: the clamp of the closing and of the member
// indent are separate pieces of code.
var IndentDepths = []int{17, 18, 19, 24, 25, 26, 30, 31, 32, 33, 41, 42, 43, 62, 63, 64, 65, 126, 127, 128, 129, 130}

// IndentValues: divisors and non-divisors of 128, and values around and beyond it.
var IndentValues = []int{1, 2, 3, 4, 5, 7, 8, 127, 128, 129, 300}

// IndentChains enumerates deep nestings in which every level also has a
// sibling (so that a lost separator or line break merges two tokens): arrays
// [v 3], objects {a:v b:4} and the two alternating, besides the plain chains.
func IndentChains(fn func(t any) bool) {
	for _, d := range IndentDepths {
		for _, kind := range []string{"arr", "obj", "alt"} {
			if !fn(Chain(kind, d, int64(1))) {
				return
			}
			var v any = []any{int64(1), int64(2)}
			for l := d; l >= 1; l-- {
				if kind == "arr" || (kind == "alt" && l%2 == 1) {
					v = []any{v, int64(3)}
				} else {
					v = map[string]any{"a": v, "b": int64(4)}
				}
			}
			if !fn(v) {
				return
			}
		}
	}
}

// TableCellKinds are the cell fillings of the table family.
var TableCellKinds = []string{"int", "str", "arr", "map", "mapvar", "bycol", "byrowcol", "nilstr", "nestmix"}

// Cell is the value of the cell in row i, column j for a cell kind. Widths
// vary with the position so that padding is needed; "mapvar" cells are maps
// with varying key sets (nested missing columns), "nilstr" cells are nil, ""
// or "v" (cells the omit options remove).
func Cell(kind string, i, j int) any {
	switch kind {
	case "int":
		return []int64{1, 1000, -25}[i%3] + int64(j)
	case "str":
		return strings.Repeat("s", 1+(i+2*j)%3)
	case "arr":
		a := []any{}
		for k := 0; k <= (i+j)%3; k++ {
			a = append(a, int64(k))
		}
		return a
	case "map":
		return map[string]any{"x": int64(i), "y": int64(j * 100)}
	case "mapvar":
		switch (i + j) % 4 {
		case 0:
			return map[string]any{"x": int64(1), "y": int64(2)}
		case 1:
			return map[string]any{"x": int64(1)}
		case 2:
			return map[string]any{"y": int64(2)}
		}
		return map[string]any{}
	case "bycol":
		return Cell([]string{"int", "str", "arr"}[j%3], i, j)
	case "byrowcol":
		return Cell([]string{"int", "str", "arr", "map"}[(i+j)%4], i, j)
	case "nestmix":
		// one level further down an object in one row and an array in the other:
		// the columns of a table are found by position, whatever they hold
		if (i+j)%2 == 0 {
			return []any{map[string]any{"a": int64(1 + i)}}
		}
		return []any{[]any{[]any{int64(5 + j)}}}
	case "nilstr":
		switch (i + j) % 3 {
		case 0:
			return nil
		case 1:
			return ""
		}
		return "v"
	}
	panic("gens.Cell: unknown kind " + kind)
}

// Tables enumerates arrays of 2..3 rows x 1..3 columns: object rows with
// every subset of the cells present (columns "a","b","c") and array rows with
// every combination of row lengths 0..columns, for every cell kind. small
// leaves out the 3 x 3 tables; nested additionally wraps each table as
// {"t": table, "u": 1}.
func Tables(small, nested bool, fn func(t any) bool) {
	cols := []string{"a", "b", "c"}
	// the same columns under names that a writer has to quote or escape (and
	// that sort differently once encoded): 2-row object tables only
	quoted := []string{"a", "b c", "c\"d"}
	// names of which one is the beginning of the others, followed by a character
	// below the quote: as raw strings they sort a < "a b" < "a!", as encoded text
	// "a b" < "a!" < "a" (a writer that sorts members one way and columns the
	// other must still put every cell under its own name)
	prefixed := []string{"a", "a b", "a!"}
	emit := func(tbl []any) bool {
		if !fn(tbl) {
			return false
		}
		if nested {
			return fn(map[string]any{"t": Clone(tbl), "u": int64(1)})
		}
		return true
	}
	for rows := 2; rows <= 3; rows++ {
		for nc := 1; nc <= 3; nc++ {
			if small && rows == 3 && nc == 3 {
				continue
			}
			for pat := 0; pat < 1<<(rows*nc); pat++ {
				for _, ck := range TableCellKinds {
					tbl := make([]any, rows)
					for i := 0; i < rows; i++ {
						row := map[string]any{}
						for j := 0; j < nc; j++ {
							if pat>>(i*nc+j)&1 == 1 {
								row[cols[j]] = Cell(ck, i, j)
							}
						}
						tbl[i] = row
					}
					if !emit(tbl) {
						return
					}
					if rows == 2 && nc >= 2 {
						q := make([]any, rows)
						for i, r := range tbl {
							row := map[string]any{}
							for j := 0; j < nc; j++ {
								if v, has := r.(map[string]any)[cols[j]]; has {
									row[quoted[j]] = v
								}
							}
							q[i] = row
						}
						if !emit(q) {
							return
						}
						q2 := make([]any, rows)
						for i, r := range tbl {
							row := map[string]any{}
							for j := 0; j < nc; j++ {
								if v, has := r.(map[string]any)[cols[j]]; has {
									row[prefixed[j]] = v
								}
							}
							q2[i] = row
						}
						if !emit(q2) {
							return
						}
					}
				}
			}
			n := 1
			for i := 0; i < rows; i++ {
				n *= nc + 1
			}
			for pat := 0; pat < n; pat++ {
				for _, ck := range TableCellKinds {
					tbl := make([]any, rows)
					p := pat
					for i := 0; i < rows; i++ {
						l := p % (nc + 1)
						p /= nc + 1
						row := make([]any, l)
						for j := 0; j < l; j++ {
							row[j] = Cell(ck, i, j)
						}
						tbl[i] = row
					}
					if !emit(tbl) {
						return
					}
				}
			}
		}
	}
}
