package gens

import (
	"reflect"
	"testing"
)

func TestStructEnumeration(t *testing.T) {
	alpha := FieldAlphabet(AllKinds())
	if len(alpha) != 24*6+3 {
		t.Fatalf("alphabet: %d letters", len(alpha))
	}
	n1 := Specs(alpha, 1, func(int, StructSpec) {})
	seen := map[reflect.Type]bool{}
	n2 := Specs(alpha, 2, func(_ int, s StructSpec) {
		if !s.Valid() {
			t.Fatalf("invalid spec enumerated: %s", s)
		}
	})
	// two embedded fields of the same name cannot be built: 5 ordered pairs
	if n1 != 147 || n2 != 147*147-5 {
		t.Errorf("counts: %d single, %d pairs", n1, n2)
	}
	Specs(alpha, 1, func(_ int, s StructSpec) {
		ty := s.Type()
		if seen[ty] {
			t.Errorf("type built twice: %s", s)
		}
		seen[ty] = true
		if ty != s.Type() {
			t.Errorf("type not cached: %s", s)
		}
		for _, vals := range s.ValueChoices(true) {
			v := s.NewValue(vals)
			if v.Kind() != reflect.Ptr || v.Elem().Type() != ty {
				t.Fatalf("value of %s", s)
			}
			if vals[0] == 0 && !v.Elem().IsZero() {
				t.Errorf("value 0 of %s is not the zero value", s)
			}
			if vals[0] != 0 && v.Elem().IsZero() && Kinds[s[0].Kind].Vals[vals[0]].Name != "zero" {
				t.Errorf("value %d of %s is zero", vals[0], s)
			}
		}
	})
}

func TestStructSpecNaming(t *testing.T) {
	s := StructSpec{{KindIndex("int"), 2}, {KindIndex("embed"), 0}, {KindIndex("string"), 5}}
	want := "struct{Ab int `json:\"x0,omitempty\"`; EmbA embed; Cz string `json:\",string\"`}"
	if s.String() != want {
		t.Errorf("got %s", s)
	}
	ty := s.Type()
	if f := ty.Field(0); f.Tag.Get("json") != "x0,omitempty" || f.Name != "Ab" {
		t.Errorf("field 0: %+v", f)
	}
	if f := ty.Field(1); !f.Anonymous || f.Type != reflect.TypeOf(EmbA{}) {
		t.Errorf("field 1: %+v", f)
	}
	if len(s.ValueChoices(false)) != 8 || len(StructSpec{{KindIndex("any"), 0}}.ValueChoices(true)) != 4 {
		t.Errorf("value choices")
	}
	if (StructSpec{{KindIndex("embed"), 0}, {KindIndex("embedptr"), 0}}).Valid() {
		t.Errorf("two fields named EmbA must be invalid")
	}
}
