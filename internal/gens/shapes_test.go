package gens

import "testing"

func TestShapes(t *testing.T) {
	n := 0
	Chains([]any{nil, "x"}, func(v any) bool { n++; return true })
	if n != len(ChainDepths)*3*2 {
		t.Fatalf("chains %d", n)
	}
	d := 0
	for v := Chain("alt", 5, int64(1)); ; d++ {
		if a, ok := v.([]any); ok {
			v = a[0]
		} else if m, ok := v.(map[string]any); ok {
			v = m["a"]
		} else {
			break
		}
	}
	if d != 5 {
		t.Fatalf("chain depth %d", d)
	}
	small, full, nested := 0, 0, 0
	Tables(true, false, func(any) bool { small++; return true })
	Tables(false, false, func(any) bool { full++; return true })
	Tables(false, true, func(any) bool { nested++; return true })
	// object rows: 2 rows 4+16+64 (the 16+64 tables with two or more columns once
	// more under quoted and once more under prefixed column names), 3 rows 8+64+512; array rows: 4+9+16, 8+27+64
	wantFull := (84 + 80 + 80 + 584 + 29 + 99) * len(TableCellKinds)
	wantSmall := wantFull - (512+64)*len(TableCellKinds)
	if full != wantFull || small != wantSmall || nested != 2*wantFull {
		t.Fatalf("tables %d %d %d want %d %d", small, full, nested, wantSmall, wantFull)
	}
}
