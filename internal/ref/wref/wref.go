// Package wref is the reference side of the writer properties (C04, C10):
// what a written value must read back as. It knows nothing about ojg. It
// holds
//
//   - an order preserving decoder for JSON text built on encoding/json's token
//     stream (the trusted base),
//   - the accept-set matcher for "the input tree minus exactly the members
//     OmitNil/OmitEmpty say to drop" (DESIGN.md §2.5),
//   - string equality "after invalid UTF-8 was replaced by U+FFFD" and number
//     equality "by value",
//   - a lossless, JSON-marshalable encoding of value trees for replay files
//     (Go strings with invalid UTF-8 do not survive json.Marshal).
package wref

import (
	"bytes"
	"encoding/json"
	"fmt"
	"io"
	"math"
	"math/big"
	"sort"
	"strconv"
	"strings"
	"unicode/utf8"
)

// Obj is an object with its members in text order (duplicates preserved).
type Obj struct {
	Keys []string
	Vals []any
}

// DecodeJSON decodes one JSON text into nil, bool, json.Number, string, []any
// and *Obj. The text must be exactly one value (trailing data is an error).
func DecodeJSON(text []byte) (v any, err error) {
	dec := json.NewDecoder(bytes.NewReader(text))
	dec.UseNumber()
	if v, err = decodeValue(dec); err != nil {
		return nil, err
	}
	if _, err = dec.Token(); err != io.EOF {
		if err == nil {
			err = fmt.Errorf("trailing data after the value")
		}
		return nil, err
	}
	return v, nil
}

func decodeValue(dec *json.Decoder) (any, error) {
	tok, err := dec.Token()
	if err != nil {
		if err == io.EOF {
			err = io.ErrUnexpectedEOF
		}
		return nil, err
	}
	d, ok := tok.(json.Delim)
	if !ok {
		return tok, nil
	}
	switch d {
	case '[':
		a := []any{}
		for dec.More() {
			e, err := decodeValue(dec)
			if err != nil {
				return nil, err
			}
			a = append(a, e)
		}
		if _, err = dec.Token(); err != nil {
			return nil, err
		}
		return a, nil
	case '{':
		o := &Obj{}
		for dec.More() {
			kt, err := dec.Token()
			if err != nil {
				return nil, err
			}
			k, ok := kt.(string)
			if !ok {
				return nil, fmt.Errorf("object key is not a string")
			}
			e, err := decodeValue(dec)
			if err != nil {
				return nil, err
			}
			o.Keys = append(o.Keys, k)
			o.Vals = append(o.Vals, e)
		}
		if _, err = dec.Token(); err != nil {
			return nil, err
		}
		return o, nil
	}
	return nil, fmt.Errorf("unexpected delimiter %q", d)
}

// FromGo converts a parsed Go value (map[string]any ...) into the decoder's
// shape; object members are put in ascending key order.
func FromGo(v any) any {
	switch t := v.(type) {
	case []any:
		a := make([]any, len(t))
		for i, e := range t {
			a[i] = FromGo(e)
		}
		return a
	case map[string]any:
		o := &Obj{}
		for k := range t {
			o.Keys = append(o.Keys, k)
		}
		sort.Strings(o.Keys)
		for _, k := range o.Keys {
			o.Vals = append(o.Vals, FromGo(t[k]))
		}
		return o
	}
	return v
}

// Kind names the kind of an input or decoded value.
func Kind(v any) string {
	switch t := v.(type) {
	case nil:
		return "nil"
	case bool:
		return "bool"
	case int64, int:
		return "int"
	case float64:
		return "float"
	case json.Number:
		return "number"
	case string:
		return "string"
	case []any:
		if len(t) == 0 {
			return "empty-array"
		}
		return "array"
	case map[string]any:
		if len(t) == 0 {
			return "empty-object"
		}
		return "object"
	case *Obj:
		if len(t.Keys) == 0 {
			return "empty-object"
		}
		return "object"
	}
	return fmt.Sprintf("%T", v)
}

// ---------------------------------------------------------------- strings

const repl = "\uFFFD"

// ReplPerByte replaces every byte that is not part of a valid UTF-8 encoding
// by U+FFFD.
func ReplPerByte(s string) string {
	if utf8.ValidString(s) {
		return s
	}
	var b strings.Builder
	for i := 0; i < len(s); {
		r, n := utf8.DecodeRuneInString(s[i:])
		if r == utf8.RuneError && n == 1 {
			b.WriteString(repl)
			i++
			continue
		}
		b.WriteString(s[i : i+n])
		i += n
	}
	return b.String()
}

// ReplPerRun replaces every maximal run of such bytes by one U+FFFD.
func ReplPerRun(s string) string { return strings.ToValidUTF8(s, repl) }

// SameString reports whether got is want with its invalid UTF-8 replaced by
// U+FFFD, under any reading of "replaced": a maximal run of n offending
// bytes may have become 1..n replacement characters. got must be valid UTF-8
// unless it is byte-identical to want or the two agree after the same
// per-byte replacement (a reader may hand raw bytes back).
func SameString(want, got string) bool {
	if want == got {
		return true
	}
	if utf8.ValidString(want) {
		return false // nothing to replace: bytes must be identical
	}
	if !utf8.ValidString(got) {
		return ReplPerByte(want) == ReplPerByte(got)
	}
	return matchRepl(want, got)
}

func matchRepl(want, got string) bool {
	if want == "" {
		return got == ""
	}
	r, n := utf8.DecodeRuneInString(want)
	if !(r == utf8.RuneError && n == 1) {
		return strings.HasPrefix(got, want[:n]) && matchRepl(want[n:], got[n:])
	}
	// a run of invalid bytes
	run := 0
	for run < len(want) {
		r, n = utf8.DecodeRuneInString(want[run:])
		if !(r == utf8.RuneError && n == 1) {
			break
		}
		run++
	}
	for k := 1; k <= run; k++ {
		p := strings.Repeat(repl, k)
		if strings.HasPrefix(got, p) && matchRepl(want[run:], got[len(p):]) {
			return true
		}
	}
	return false
}

// ---------------------------------------------------------------- numbers

// NumEqual reports whether got (int64, float64 or json.Number) denotes the
// value of want (int64 or float64). An integer must come back exactly; a
// float must come back as the same float64 (a decimal text is read with
// strconv.ParseFloat, i.e. nearest float).
func NumEqual(want, got any) bool {
	switch w := want.(type) {
	case int:
		return NumEqual(int64(w), got)
	case int64:
		wr := new(big.Rat).SetInt64(w)
		switch g := got.(type) {
		case int64:
			return g == w
		case int:
			return int64(g) == w
		case float64:
			if math.IsNaN(g) || math.IsInf(g, 0) {
				return false
			}
			return new(big.Rat).SetFloat64(g).Cmp(wr) == 0
		case json.Number:
			r, ok := new(big.Rat).SetString(string(g))
			return ok && r.Cmp(wr) == 0
		}
	case float64:
		switch g := got.(type) {
		case float64:
			return g == w
		case int64:
			return new(big.Rat).SetInt64(g).Cmp(new(big.Rat).SetFloat64(w)) == 0
		case int:
			return NumEqual(want, int64(g))
		case json.Number:
			f, err := strconv.ParseFloat(string(g), 64)
			return err == nil && f == w
		}
	}
	return false
}

func isNum(v any) bool {
	switch v.(type) {
	case int, int64, float64, json.Number:
		return true
	}
	return false
}

// ---------------------------------------------------------------- omission

// Opts are the two options that change the tree.
type Opts struct {
	OmitNil   bool
	OmitEmpty bool
}

// Drop classes of an object member.
const (
	Keep = iota // must be present
	May         // may be present or dropped
	Must        // must be dropped
)

// DropClass says what the options demand for a member with value v
// (DESIGN.md §2.5): OmitNil drops exactly nil members; OmitEmpty must drop
// "", [] and {} (emptiness judged on the value as given), may drop false, 0,
// 0.0, nil and maps that only become empty through omission.
func DropClass(v any, o Opts) int {
	switch t := v.(type) {
	case nil:
		if o.OmitNil {
			return Must
		}
		if o.OmitEmpty {
			return May
		}
	case string:
		if o.OmitEmpty && t == "" {
			return Must
		}
	case []any:
		if o.OmitEmpty && len(t) == 0 {
			return Must
		}
	case map[string]any:
		if !o.OmitEmpty {
			return Keep
		}
		if len(t) == 0 {
			return Must
		}
		for _, m := range t {
			if DropClass(m, o) == Keep {
				return Keep
			}
		}
		return May
	case bool:
		if o.OmitEmpty && !t {
			return May
		}
	case int64:
		if o.OmitEmpty && t == 0 {
			return May
		}
	case int:
		if o.OmitEmpty && t == 0 {
			return May
		}
	case float64:
		if o.OmitEmpty && t == 0 {
			return May
		}
	}
	return Keep
}

// Diff describes the first difference found.
type Diff struct {
	Path     []string // keys / indexes from the root
	Kind     string   // missing | extra | duplicate | wrong-value | wrong-kind | wrong-length | key-spelling
	WantKind string
	GotKind  string
	Want     any // the input node at the difference (nil for extra)
	Got      any
	// for members: position among the input object's members in ascending
	// key order and whether a neighbour was omitted
	Pos string // only | first | middle | last | -
	Nbr string // none | before | after | both | -
}

func (d *Diff) String() string {
	return fmt.Sprintf("%s at /%s: want %s got %s", d.Kind, strings.Join(d.Path, "/"), d.WantKind, d.GotKind)
}

// Match compares the decoded value got (DecodeJSON / FromGo shape) with the
// input tree want (nil, bool, int64, float64, string, []any, map[string]any)
// under the omission options. exactKeys demands byte-identical keys for keys
// that are valid UTF-8 (always the case) and lenient replacement otherwise.
func Match(want, got any, o Opts) *Diff {
	return match(want, got, o, nil)
}

func match(want, got any, o Opts, path []string) *Diff {
	bad := func(kind string) *Diff {
		return &Diff{Path: append([]string{}, path...), Kind: kind, WantKind: Kind(want), GotKind: Kind(got), Want: want, Got: got, Pos: "-", Nbr: "-"}
	}
	switch w := want.(type) {
	case nil:
		if got != nil {
			return bad("wrong-kind")
		}
	case bool:
		g, ok := got.(bool)
		if !ok {
			return bad("wrong-kind")
		}
		if g != w {
			return bad("wrong-value")
		}
	case int, int64, float64:
		if !isNum(got) {
			return bad("wrong-kind")
		}
		if !NumEqual(want, got) {
			return bad("wrong-value")
		}
	case string:
		g, ok := got.(string)
		if !ok {
			return bad("wrong-kind")
		}
		if !SameString(w, g) {
			return bad("wrong-value")
		}
	case []any:
		g, ok := got.([]any)
		if !ok {
			return bad("wrong-kind")
		}
		if len(g) != len(w) {
			return bad("wrong-length")
		}
		for i := range w {
			if d := match(w[i], g[i], o, append(path, strconv.Itoa(i))); d != nil {
				return d
			}
		}
	case map[string]any:
		g, ok := got.(*Obj)
		if !ok {
			return bad("wrong-kind")
		}
		keys := make([]string, 0, len(w))
		for k := range w {
			keys = append(keys, k)
		}
		sort.Strings(keys)
		used := make([]bool, len(g.Keys))
		find := func(k string) int {
			for i, gk := range g.Keys {
				if !used[i] && gk == k {
					return i
				}
			}
			if !utf8.ValidString(k) {
				for i, gk := range g.Keys {
					if !used[i] && SameString(k, gk) {
						return i
					}
				}
			}
			return -1
		}
		cls := make([]int, len(keys))
		idx := make([]int, len(keys))
		for i, k := range keys {
			cls[i] = DropClass(w[k], o)
			idx[i] = find(k)
			if idx[i] >= 0 {
				used[idx[i]] = true
			}
		}
		member := func(i int, kind string, gv any) *Diff {
			d := &Diff{Path: append(append([]string{}, path...), keys[i]), Kind: kind, WantKind: Kind(w[keys[i]]), GotKind: Kind(gv), Want: w[keys[i]], Got: gv}
			switch {
			case len(keys) == 1:
				d.Pos = "only"
			case i == 0:
				d.Pos = "first"
			case i == len(keys)-1:
				d.Pos = "last"
			default:
				d.Pos = "middle"
			}
			before, after := false, false
			for j := range keys {
				if cls[j] != Keep && idx[j] < 0 {
					if j < i {
						before = true
					} else if j > i {
						after = true
					}
				}
			}
			switch {
			case before && after:
				d.Nbr = "both"
			case before:
				d.Nbr = "before"
			case after:
				d.Nbr = "after"
			default:
				d.Nbr = "none"
			}
			return d
		}
		for i, k := range keys {
			switch {
			case idx[i] < 0 && cls[i] == Keep:
				return member(i, "missing", nil)
			case idx[i] >= 0 && cls[i] == Must:
				return member(i, "extra", g.Vals[idx[i]])
			case idx[i] >= 0:
				if d := match(w[k], g.Vals[idx[i]], o, append(path, k)); d != nil {
					return d
				}
			}
		}
		for i := range g.Keys {
			if !used[i] {
				kind := "extra"
				for j := range g.Keys {
					if j != i && g.Keys[j] == g.Keys[i] {
						kind = "duplicate"
					}
				}
				return &Diff{Path: append(append([]string{}, path...), g.Keys[i]), Kind: kind, WantKind: "-", GotKind: Kind(g.Vals[i]), Got: g.Vals[i], Pos: "-", Nbr: "-"}
			}
		}
	default:
		return bad("unsupported-input")
	}
	return nil
}

// Unsorted returns the path of the first object whose members are not in
// ascending order, or nil. raw maps a decoded key back to the input key when
// the two differ (invalid UTF-8); order is accepted if either the decoded or
// the raw spelling ascends.
func Unsorted(want, got any) []string {
	return unsorted(want, got, nil)
}

func unsorted(want, got any, path []string) []string {
	switch g := got.(type) {
	case []any:
		w, _ := want.([]any)
		for i, e := range g {
			var we any
			if i < len(w) {
				we = w[i]
			}
			if p := unsorted(we, e, append(path, strconv.Itoa(i))); p != nil {
				return p
			}
		}
	case *Obj:
		w, _ := want.(map[string]any)
		rawOf := func(gk string) string {
			if _, ok := w[gk]; ok {
				return gk
			}
			for k := range w {
				if !utf8.ValidString(k) && SameString(k, gk) {
					return k
				}
			}
			return gk
		}
		decodedOK, rawOK := true, true
		for i := 1; i < len(g.Keys); i++ {
			if !(g.Keys[i-1] < g.Keys[i]) {
				decodedOK = false
			}
			if !(rawOf(g.Keys[i-1]) < rawOf(g.Keys[i])) {
				rawOK = false
			}
		}
		if !decodedOK && !rawOK {
			return append([]string{}, path...)
		}
		for i, k := range g.Keys {
			if p := unsorted(w[rawOf(k)], g.Vals[i], append(path, k)); p != nil {
				return p
			}
		}
	}
	return nil
}

// ---------------------------------------------------------------- tree codec

// Enc turns a value tree into a JSON-marshalable value that keeps every byte
// and the int/float distinction:
// nil, bool as is; int64 {"i":"…"}; float64 {"f":"…"}; string {"s":"<Go quoted, ASCII>"};
// []any as array; map as {"m":[[<Go quoted key>, value]…]} in ascending key order.
func Enc(v any) any {
	switch t := v.(type) {
	case nil:
		return nil
	case bool:
		return t
	case int:
		return map[string]any{"i": strconv.FormatInt(int64(t), 10)}
	case int64:
		return map[string]any{"i": strconv.FormatInt(t, 10)}
	case float64:
		return map[string]any{"f": strconv.FormatFloat(t, 'g', -1, 64)}
	case string:
		return map[string]any{"s": strconv.QuoteToASCII(t)}
	case []any:
		a := make([]any, len(t))
		for i, e := range t {
			a[i] = Enc(e)
		}
		return a
	case map[string]any:
		keys := make([]string, 0, len(t))
		for k := range t {
			keys = append(keys, k)
		}
		sort.Strings(keys)
		ms := make([]any, 0, len(keys))
		for _, k := range keys {
			ms = append(ms, []any{strconv.QuoteToASCII(k), Enc(t[k])})
		}
		return map[string]any{"m": ms}
	}
	return map[string]any{"unsupported": fmt.Sprintf("%T", v)}
}

// Dec is the inverse of Enc applied to the result of json.Unmarshal into any.
func Dec(v any) (any, error) {
	switch t := v.(type) {
	case nil:
		return nil, nil
	case bool:
		return t, nil
	case []any:
		a := make([]any, len(t))
		for i, e := range t {
			d, err := Dec(e)
			if err != nil {
				return nil, err
			}
			a[i] = d
		}
		return a, nil
	case map[string]any:
		if s, ok := t["i"].(string); ok {
			return strconv.ParseInt(s, 10, 64)
		}
		if s, ok := t["f"].(string); ok {
			return strconv.ParseFloat(s, 64)
		}
		if s, ok := t["s"].(string); ok {
			return strconv.Unquote(s)
		}
		if ms, ok := t["m"].([]any); ok {
			m := map[string]any{}
			for _, e := range ms {
				p, ok := e.([]any)
				if !ok || len(p) != 2 {
					return nil, fmt.Errorf("bad member %v", e)
				}
				qs, _ := p[0].(string)
				k, err := strconv.Unquote(qs)
				if err != nil {
					return nil, err
				}
				d, err := Dec(p[1])
				if err != nil {
					return nil, err
				}
				m[k] = d
			}
			return m, nil
		}
	}
	return nil, fmt.Errorf("cannot decode %v", v)
}

// GoLit prints a value tree as a Go expression (for witnesses).
func GoLit(v any) string {
	switch t := v.(type) {
	case nil:
		return "nil"
	case bool:
		return strconv.FormatBool(t)
	case int:
		return strconv.Itoa(t)
	case int64:
		return "int64(" + strconv.FormatInt(t, 10) + ")"
	case float64:
		return "float64(" + strconv.FormatFloat(t, 'g', -1, 64) + ")"
	case string:
		return strconv.QuoteToASCII(t)
	case []any:
		parts := make([]string, len(t))
		for i, e := range t {
			parts[i] = GoLit(e)
		}
		return "[]any{" + strings.Join(parts, ", ") + "}"
	case map[string]any:
		keys := make([]string, 0, len(t))
		for k := range t {
			keys = append(keys, k)
		}
		sort.Strings(keys)
		parts := make([]string, len(keys))
		for i, k := range keys {
			parts[i] = strconv.QuoteToASCII(k) + ": " + GoLit(t[k])
		}
		return "map[string]any{" + strings.Join(parts, ", ") + "}"
	}
	return fmt.Sprintf("%#v", v)
}

// Size is a witness size: nodes plus string bytes.
func Size(v any) int {
	switch t := v.(type) {
	case string:
		return 1 + len(t)
	case []any:
		n := 1
		for _, e := range t {
			n += Size(e)
		}
		return n
	case map[string]any:
		n := 1
		for k, e := range t {
			n += len(k) + Size(e)
		}
		return n
	}
	return 1
}

// MaxMembers is the largest object member count in the tree.
func MaxMembers(v any) int {
	switch t := v.(type) {
	case []any:
		n := 0
		for _, e := range t {
			if m := MaxMembers(e); m > n {
				n = m
			}
		}
		return n
	case map[string]any:
		n := len(t)
		for _, e := range t {
			if m := MaxMembers(e); m > n {
				n = m
			}
		}
		return n
	}
	return 0
}
