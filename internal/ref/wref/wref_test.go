package wref

import (
	"encoding/json"
	"math"
	"reflect"
	"testing"
)

func dec(t *testing.T, s string) any {
	t.Helper()
	v, err := DecodeJSON([]byte(s))
	if err != nil {
		t.Fatalf("decode %q: %v", s, err)
	}
	return v
}

func TestDecodeKeepsOrderAndDuplicates(t *testing.T) {
	o := dec(t, `{"b":1,"a":[true,null,{"x":"y"}],"b":2}`).(*Obj)
	if !reflect.DeepEqual(o.Keys, []string{"b", "a", "b"}) {
		t.Fatalf("keys %v", o.Keys)
	}
	if o.Vals[0] != json.Number("1") || o.Vals[2] != json.Number("2") {
		t.Fatalf("vals %v", o.Vals)
	}
	for _, bad := range []string{``, `[`, `[1,]`, `{"a":1,}`, `1 2`, `{"a" 1}`, `[1}`} {
		if _, err := DecodeJSON([]byte(bad)); err == nil {
			t.Fatalf("accepted %q", bad)
		}
	}
}

func TestSameString(t *testing.T) {
	yes := [][2]string{
		{"abc", "abc"},
		{"a\x80b", "a�b"},
		{"\xe2\x82", "��"},                      // per byte
		{"\xe2\x82", "�"},                       // per run
		{"\xe2\x82�", "��"},                     // run then a literal U+FFFD
		{"\xe2\x82�", "���"},                    //
		{"x\x80y\xffz", "x�y�z"},                //
		{"\x80", "\x80"},                        // raw bytes handed back
		{"a\x80\x80", "a�\x80"},                 // partly raw: same after per-byte replacement
		{"\xf0\x9f\x98", "���"},                 // truncated 4 byte rune
		{"\xf0\x9f\x98\x80\x80", "\U0001F600�"}, // valid rune then lone continuation
	}
	for _, c := range yes {
		if !SameString(c[0], c[1]) {
			t.Errorf("SameString(%q,%q) = false", c[0], c[1])
		}
	}
	no := [][2]string{
		{"abc", "abd"},
		{"abc", "ab"},
		{"a\x80b", "ab"},
		{"a\x80b", "a��b"},
		{"\xe2\x82", "���"},
		{"a", "�"},
		{"�", "?"},
		{"", "�"},
		{"a\x80", "a"},
	}
	for _, c := range no {
		if SameString(c[0], c[1]) {
			t.Errorf("SameString(%q,%q) = true", c[0], c[1])
		}
	}
	if ReplPerByte("a\xe2\x82b") != "a��b" || ReplPerRun("a\xe2\x82b") != "a�b" {
		t.Fatal("repl")
	}
}

func TestNumEqual(t *testing.T) {
	yes := [][2]any{
		{int64(1), json.Number("1")}, {int64(1), json.Number("1.0")}, {int64(1000), json.Number("1e3")},
		{int64(math.MaxInt64), json.Number("9223372036854775807")}, {int64(math.MinInt64), json.Number("-9223372036854775808")},
		{int64(5), float64(5)}, {int64(5), int64(5)},
		{0.1, json.Number("0.1")}, {1e21, json.Number("1e+21")}, {5e-324, json.Number("5e-324")},
		{math.MaxFloat64, json.Number("1.7976931348623157e+308")}, {1.0, int64(1)}, {0.0, json.Number("-0")},
		{1e20, json.Number("100000000000000000000")},
	}
	for _, c := range yes {
		if !NumEqual(c[0], c[1]) {
			t.Errorf("NumEqual(%v,%v) = false", c[0], c[1])
		}
	}
	no := [][2]any{
		{int64(math.MaxInt64), json.Number("9223372036854775808")}, {int64(math.MaxInt64), float64(math.MaxInt64)},
		{int64(9007199254740993), float64(9007199254740992)}, {int64(1), json.Number("1.5")}, {int64(1), "1"},
		{0.1, json.Number("0.10000001")}, {0.1, int64(0)}, {1.5, json.Number("x")}, {int64(1), true},
	}
	for _, c := range no {
		if NumEqual(c[0], c[1]) {
			t.Errorf("NumEqual(%v,%v) = true", c[0], c[1])
		}
	}
}

func TestDropClass(t *testing.T) {
	type tc struct {
		v    any
		o    Opts
		want int
	}
	em := map[string]any{}
	for _, c := range []tc{
		{nil, Opts{}, Keep}, {nil, Opts{OmitNil: true}, Must}, {nil, Opts{OmitEmpty: true}, May},
		{"", Opts{OmitNil: true}, Keep}, {"", Opts{OmitEmpty: true}, Must}, {"x", Opts{OmitEmpty: true}, Keep},
		{[]any{}, Opts{OmitNil: true}, Keep}, {[]any{}, Opts{OmitEmpty: true}, Must}, {[]any{nil}, Opts{OmitNil: true, OmitEmpty: true}, Keep},
		{em, Opts{OmitNil: true}, Keep}, {em, Opts{OmitEmpty: true}, Must},
		{map[string]any{"a": nil}, Opts{OmitNil: true}, Keep},
		{map[string]any{"a": nil}, Opts{OmitNil: true, OmitEmpty: true}, May},
		{map[string]any{"a": ""}, Opts{OmitEmpty: true}, May},
		{map[string]any{"a": map[string]any{"b": []any{}}}, Opts{OmitEmpty: true}, May},
		{map[string]any{"a": "", "b": 1}, Opts{OmitEmpty: true}, Keep},
		{false, Opts{OmitEmpty: true}, May}, {true, Opts{OmitEmpty: true}, Keep}, {false, Opts{OmitNil: true}, Keep},
		{int64(0), Opts{OmitEmpty: true}, May}, {int64(1), Opts{OmitEmpty: true}, Keep}, {0.0, Opts{OmitEmpty: true}, May},
	} {
		if got := DropClass(c.v, c.o); got != c.want {
			t.Errorf("DropClass(%v,%+v) = %d want %d", c.v, c.o, got, c.want)
		}
	}
}

func TestMatch(t *testing.T) {
	in := map[string]any{"a": nil, "b": "", "c": []any{int64(1), 0.5, "x\x80"}, "d": map[string]any{"e": nil}, "f": false}
	ok := func(text string, o Opts) {
		t.Helper()
		if d := Match(in, dec(t, text), o); d != nil {
			t.Errorf("%s under %+v: %v", text, o, d)
		}
	}
	bad := func(text string, o Opts, kind string, path ...string) {
		t.Helper()
		d := Match(in, dec(t, text), o)
		if d == nil {
			t.Errorf("%s under %+v accepted", text, o)
			return
		}
		if d.Kind != kind || !reflect.DeepEqual(d.Path, path) {
			t.Errorf("%s under %+v: got %v want %s at %v", text, o, d, kind, path)
		}
	}
	full := `{"f":false,"d":{"e":null},"c":[1,0.5,"x�"],"b":"","a":null}`
	ok(full, Opts{})
	bad(full, Opts{OmitNil: true}, "extra", "a")
	ok(`{"b":"","c":[1,0.5,"x�"],"d":{},"f":false}`, Opts{OmitNil: true})
	bad(`{"b":"","c":[1,0.5,"x�"],"f":false}`, Opts{OmitNil: true}, "missing", "d")
	bad(`{"b":"","c":[1,0.5,"x�"],"d":{"e":null},"f":false}`, Opts{OmitNil: true}, "extra", "d", "e")
	// OmitEmpty: b must go; a, f may; d (e:nil may go, so d may become empty) may
	ok(`{"c":[1,0.5,"x�"]}`, Opts{OmitEmpty: true})
	ok(`{"a":null,"c":[1,0.5,"x�"],"d":{"e":null},"f":false}`, Opts{OmitEmpty: true})
	ok(`{"c":[1,0.5,"x�"],"d":{}}`, Opts{OmitEmpty: true})
	bad(`{"b":"","c":[1,0.5,"x�"]}`, Opts{OmitEmpty: true}, "extra", "b")
	bad(`{"c":[1,0.5,"x�"],"f":true}`, Opts{OmitEmpty: true}, "wrong-value", "f")
	bad(`{}`, Opts{OmitEmpty: true}, "missing", "c")
	bad(`{"c":[1,0.5]}`, Opts{OmitEmpty: true}, "wrong-length", "c")
	bad(`{"c":[1,0.5,"x"]}`, Opts{OmitEmpty: true}, "wrong-value", "c", "2")
	bad(`{"c":[1,0.25,"x�"]}`, Opts{OmitEmpty: true}, "wrong-value", "c", "1")
	bad(`{"c":[1,"0.5","x�"]}`, Opts{OmitEmpty: true}, "wrong-kind", "c", "1")
	bad(`{"c":[1,0.5,"x�"],"z":1}`, Opts{OmitEmpty: true}, "extra", "z")
	bad(`{"c":[1,0.5,"x�"],"c":[1,0.5,"x�"]}`, Opts{OmitEmpty: true}, "duplicate", "c")
	// both: a must go, d may stay as {} or go
	ok(`{"c":[1,0.5,"x�"],"d":{}}`, Opts{OmitNil: true, OmitEmpty: true})
	bad(`{"c":[1,0.5,"x�"],"d":{"e":null}}`, Opts{OmitNil: true, OmitEmpty: true}, "extra", "d", "e")
	// position / neighbour classification
	d := Match(map[string]any{"a": nil, "b": int64(1)}, dec(t, `{}`), Opts{OmitNil: true})
	if d == nil || d.Kind != "missing" || d.Pos != "last" || d.Nbr != "before" {
		t.Errorf("pos/nbr: %+v", d)
	}
	// invalid UTF-8 key
	if d := Match(map[string]any{"k\x80": int64(1)}, dec(t, `{"k�":1}`), Opts{}); d != nil {
		t.Errorf("key repl: %v", d)
	}
	if d := Match(map[string]any{"k": int64(1)}, dec(t, `{"K":1}`), Opts{}); d == nil {
		t.Errorf("key spelling accepted")
	}
	// array elements are never dropped
	if d := Match([]any{nil, ""}, dec(t, `[""]`), Opts{OmitNil: true, OmitEmpty: true}); d == nil || d.Kind != "wrong-length" {
		t.Errorf("array drop: %v", d)
	}
	// FromGo
	if d := Match(in, FromGo(map[string]any{"a": nil, "b": "", "c": []any{int64(1), 0.5, "x�"}, "d": map[string]any{"e": nil}, "f": false}), Opts{}); d != nil {
		t.Errorf("FromGo: %v", d)
	}
}

func TestUnsorted(t *testing.T) {
	in := map[string]any{"b": []any{map[string]any{"y": 1, "x": 2}}, "a": 1}
	if p := Unsorted(in, dec(t, `{"a":1,"b":[{"x":2,"y":1}]}`)); p != nil {
		t.Errorf("sorted text flagged at %v", p)
	}
	if p := Unsorted(in, dec(t, `{"b":[{"x":2,"y":1}],"a":1}`)); p == nil || len(p) != 0 {
		t.Errorf("root disorder: %v", p)
	}
	if p := Unsorted(in, dec(t, `{"a":1,"b":[{"y":1,"x":2}]}`)); !reflect.DeepEqual(p, []string{"b", "0"}) {
		t.Errorf("nested disorder: %v", p)
	}
	// raw order "\x80" < "é" although U+FFFD > "é" after decoding
	in2 := map[string]any{"\x80": 1, "é": 2}
	if p := Unsorted(in2, dec(t, `{"�":1,"é":2}`)); p != nil {
		t.Errorf("raw order rejected: %v", p)
	}
	if p := Unsorted(in2, dec(t, `{"é":2,"�":1}`)); p != nil {
		t.Errorf("decoded order rejected: %v", p)
	}
}

func TestCodec(t *testing.T) {
	in := map[string]any{"k\x80\"": []any{nil, true, int64(math.MinInt64), 5e-324, math.MaxFloat64, "a\x00\xe2\x82 <", map[string]any{}}, "": int64(9007199254740993)}
	b, err := json.Marshal(Enc(in))
	if err != nil {
		t.Fatal(err)
	}
	var raw any
	if err := json.Unmarshal(b, &raw); err != nil {
		t.Fatal(err)
	}
	out, err := Dec(raw)
	if err != nil {
		t.Fatal(err)
	}
	if !reflect.DeepEqual(in, out) {
		t.Fatalf("codec: %s\n%#v\n%#v", b, in, out)
	}
	if GoLit(in) == "" || Size(in) < 10 || MaxMembers(in) != 2 {
		t.Fatal("helpers")
	}
}
