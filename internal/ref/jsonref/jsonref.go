// Package jsonref is the reference recogniser for RFC 8259 used by the byte
// machine explorations: a pushdown automaton that is stepped one byte at a
// time and has an explicit dead state, so "the first byte after which no
// extension is valid" is observable. It shares no code with ojg and is
// cross-checked against encoding/json on every run.
package jsonref

import "strings"

// Mode is the control state of the recogniser.
type Mode uint8

const (
	Start        Mode = iota // nothing but (maybe) BOM / whitespace seen
	Bom1                     // 0xEF seen at offset 0
	Bom2                     // 0xEF 0xBB seen
	Value                    // a value must start here (after '[' first: ValueOrClose)
	ValueOrClose             // just after '[': value or ']'
	After                    // a value just ended: ',' or close or, at depth 0, only whitespace
	Key1                     // just after '{': '"' or '}'
	Key                      // after ',' in an object: '"'
	Colon                    // after a key: ':'
	Str                      // inside a string
	Esc                      // after a backslash
	U                        // inside \uXXXX, N hex digits still to come
	Lit                      // inside true/false/null
	Neg                      // after '-'
	Zero                     // after a leading 0
	Int                      // in integer digits
	Dot                      // after '.'
	Frac                     // in fraction digits
	E                        // after e/E
	ESign                    // after exponent sign
	Exp                      // in exponent digits
	Dead
)

var modeNames = [...]string{"start", "bom1", "bom2", "value", "value|close", "after", "key1", "key", "colon", "str", "esc", "u",
	"lit", "neg", "zero", "int", "dot", "frac", "e", "esign", "exp", "dead"}

func (m Mode) String() string { return modeNames[m] }

// PDA is the recogniser state. The zero value is the initial state.
type PDA struct {
	M      Mode
	Stack  []byte // '[' or '{' per open container
	IsKey  bool   // the string being read is an object key
	Word   string // literal being matched
	WI     int    // bytes of Word matched
	N      int    // hex digits still expected
	SawBOM bool
	Docs   int  // values completed at depth 0
	Any    bool // at least one byte consumed (a BOM is only legal at offset 0)
}

// Clone copies the state.
func (p *PDA) Clone() *PDA {
	q := *p
	q.Stack = append([]byte(nil), p.Stack...)
	return &q
}

// Key is a canonical text of everything that influences the future.
func (p *PDA) Key() string {
	var b strings.Builder
	b.WriteString(p.M.String())
	b.WriteByte('/')
	b.Write(p.Stack)
	switch p.M {
	case Str, Esc:
		if p.IsKey {
			b.WriteString("/k")
		}
	case U:
		if p.IsKey {
			b.WriteString("/k")
		}
		b.WriteByte('/')
		b.WriteByte(byte('0' + p.N))
	case Lit:
		b.WriteByte('/')
		b.WriteString(p.Word)
		b.WriteByte(byte('0' + p.WI))
	case Start:
		if p.SawBOM {
			b.WriteString("/bom")
		}
		if !p.Any {
			b.WriteString("/0")
		}
	}
	return b.String()
}

// Short is the mode name with literal / hex progress, without the stack.
func (p *PDA) Short() string {
	switch p.M {
	case Lit:
		return "lit:" + p.Word[:p.WI]
	case U:
		return "u" + string(rune('0'+p.N))
	case Str, Esc:
		if p.IsKey {
			return p.M.String() + ":key"
		}
	}
	return p.M.String()
}

// Depth is the number of open containers.
func (p *PDA) Depth() int { return len(p.Stack) }

// Alive reports whether some extension is still valid.
func (p *PDA) Alive() bool { return p.M != Dead }

// Accepting reports whether the bytes so far are exactly one JSON text
// (optionally BOM-prefixed, surrounded by whitespace).
func (p *PDA) Accepting() bool {
	if len(p.Stack) != 0 {
		return false
	}
	switch p.M {
	case After:
		return true
	case Zero, Int, Frac, Exp:
		return true
	}
	return false
}

// NoDocument reports whether only whitespace (after an optional BOM) was seen.
func (p *PDA) NoDocument() bool { return p.M == Start }

func isWS(b byte) bool { return b == ' ' || b == '\t' || b == '\n' || b == '\r' }

func (p *PDA) endValue() {
	if len(p.Stack) == 0 {
		p.Docs++
	}
	p.M = After
}

func (p *PDA) startValue(b byte) {
	switch b {
	case '{':
		p.Stack = append(p.Stack, '{')
		p.M = Key1
	case '[':
		p.Stack = append(p.Stack, '[')
		p.M = ValueOrClose
	case '"':
		p.M, p.IsKey = Str, false
	case '-':
		p.M = Neg
	case '0':
		p.M = Zero
	case '1', '2', '3', '4', '5', '6', '7', '8', '9':
		p.M = Int
	case 't':
		p.M, p.Word, p.WI = Lit, "true", 1
	case 'f':
		p.M, p.Word, p.WI = Lit, "false", 1
	case 'n':
		p.M, p.Word, p.WI = Lit, "null", 1
	default:
		p.M = Dead
	}
}

// afterValue handles a byte that follows a complete value.
func (p *PDA) afterValue(b byte) {
	if isWS(b) {
		p.M = After
		return
	}
	n := len(p.Stack)
	if n == 0 {
		p.M = Dead
		return
	}
	switch {
	case b == ',' && p.Stack[n-1] == '[':
		p.M = Value
	case b == ',' && p.Stack[n-1] == '{':
		p.M = Key
	case b == ']' && p.Stack[n-1] == '[', b == '}' && p.Stack[n-1] == '{':
		p.Stack = p.Stack[:n-1]
		p.endValue()
	default:
		p.M = Dead
	}
}

func isDigit(b byte) bool { return '0' <= b && b <= '9' }

// Step consumes one byte.
func (p *PDA) Step(b byte) {
	defer func() { p.Any = true }()
	switch p.M {
	case Dead:
	case Start:
		switch {
		case isWS(b):
		case b == 0xEF && !p.SawBOM && !p.Any:
			p.M = Bom1
		default:
			p.startValue(b)
		}
	case Bom1:
		if b == 0xBB {
			p.M = Bom2
		} else {
			p.M = Dead
		}
	case Bom2:
		if b == 0xBF {
			p.M, p.SawBOM = Start, true
		} else {
			p.M = Dead
		}
	case Value:
		if !isWS(b) {
			p.startValue(b)
		}
	case ValueOrClose:
		switch {
		case isWS(b):
		case b == ']':
			p.Stack = p.Stack[:len(p.Stack)-1]
			p.endValue()
		default:
			p.startValue(b)
		}
	case After:
		p.afterValue(b)
	case Key1:
		switch {
		case isWS(b):
		case b == '"':
			p.M, p.IsKey = Str, true
		case b == '}':
			p.Stack = p.Stack[:len(p.Stack)-1]
			p.endValue()
		default:
			p.M = Dead
		}
	case Key:
		switch {
		case isWS(b):
		case b == '"':
			p.M, p.IsKey = Str, true
		default:
			p.M = Dead
		}
	case Colon:
		switch {
		case isWS(b):
		case b == ':':
			p.M = Value
		default:
			p.M = Dead
		}
	case Str:
		switch {
		case b == '"':
			if p.IsKey {
				p.M = Colon
			} else {
				p.endValue()
			}
		case b == '\\':
			p.M = Esc
		case b < 0x20:
			p.M = Dead
		}
	case Esc:
		switch b {
		case '"', '\\', '/', 'b', 'f', 'n', 'r', 't':
			p.M = Str
		case 'u':
			p.M, p.N = U, 4
		default:
			p.M = Dead
		}
	case U:
		if isDigit(b) || ('a' <= b && b <= 'f') || ('A' <= b && b <= 'F') {
			p.N--
			if p.N == 0 {
				p.M = Str
			}
		} else {
			p.M = Dead
		}
	case Lit:
		if p.Word[p.WI] == b {
			p.WI++
			if p.WI == len(p.Word) {
				p.endValue()
			}
		} else {
			p.M = Dead
		}
	case Neg:
		switch {
		case b == '0':
			p.M = Zero
		case isDigit(b):
			p.M = Int
		default:
			p.M = Dead
		}
	case Zero:
		switch {
		case b == '.':
			p.M = Dot
		case b == 'e' || b == 'E':
			p.M = E
		default:
			p.numEnd(b)
		}
	case Int:
		switch {
		case isDigit(b):
		case b == '.':
			p.M = Dot
		case b == 'e' || b == 'E':
			p.M = E
		default:
			p.numEnd(b)
		}
	case Dot:
		if isDigit(b) {
			p.M = Frac
		} else {
			p.M = Dead
		}
	case Frac:
		switch {
		case isDigit(b):
		case b == 'e' || b == 'E':
			p.M = E
		default:
			p.numEnd(b)
		}
	case E:
		switch {
		case b == '+' || b == '-':
			p.M = ESign
		case isDigit(b):
			p.M = Exp
		default:
			p.M = Dead
		}
	case ESign:
		if isDigit(b) {
			p.M = Exp
		} else {
			p.M = Dead
		}
	case Exp:
		if !isDigit(b) {
			p.numEnd(b)
		}
	}
}

// numEnd: a number is terminated by b, which is then handled as the byte
// following a value.
func (p *PDA) numEnd(b byte) {
	if len(p.Stack) == 0 {
		p.Docs++
	}
	p.afterValue(b)
}

// Run steps over all bytes of s from the initial state.
func Run(s []byte) *PDA {
	p := &PDA{}
	for _, b := range s {
		p.Step(b)
	}
	return p
}

// Valid reports whether s is exactly one JSON text (BOM and whitespace
// allowed around it).
func Valid(s []byte) bool { return Run(s).Accepting() }

// FirstDead returns the index of the first byte after which no extension is
// valid, or -1 if the whole input is still extendable.
func FirstDead(s []byte) int {
	p := &PDA{}
	for i, b := range s {
		p.Step(b)
		if !p.Alive() {
			return i
		}
	}
	return -1
}
