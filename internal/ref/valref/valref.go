// Package valref is the reference for C02: a small recursive-descent RFC 8259
// decoder that keeps everything the text says (member order, duplicate
// members, number literals as text) and an exact oracle for number results.
// It shares no code with ojg.
package valref

import (
	"errors"
	"fmt"
	"math"
	"math/big"
	"strconv"
	"strings"
	"unicode/utf8"
)

// Num is a number literal exactly as written.
type Num struct{ Lit string }

// Member is one object member in text order (duplicates kept).
type Member struct {
	Key string
	Val any
}

// Obj is an object in text order.
type Obj []Member

// Reading selects one of the decodings the property statement leaves open.
type Reading struct {
	// WTF8Lone: a \uXXXX escape naming a surrogate that is not part of a
	// high+low pair decodes to its generalized UTF-8 form instead of U+FFFD.
	WTF8Lone bool
	// ReplaceInvalid: a raw byte that is not part of a valid UTF-8 sequence
	// decodes to U+FFFD (one per byte, as encoding/json does) instead of
	// passing through unchanged.
	ReplaceInvalid bool
}

// Readings lists every reading; Readings[0] is the primary one (U+FFFD for a
// lone surrogate like encoding/json, raw bytes unchanged).
var Readings = []Reading{{}, {WTF8Lone: true}, {ReplaceInvalid: true}, {WTF8Lone: true, ReplaceInvalid: true}}

// Info says which open points the text touched.
type Info struct {
	LoneSurrogate bool
	InvalidUTF8   bool
}

type decoder struct {
	s    []byte
	i    int
	r    Reading
	info Info
}

// Decode parses one JSON text. Values: nil, bool, string, Num, []any, Obj.
func Decode(text []byte, r Reading) (v any, info Info, err error) {
	d := &decoder{s: text, r: r}
	d.ws()
	if v, err = d.value(0); err != nil {
		return nil, d.info, err
	}
	d.ws()
	if d.i != len(d.s) {
		return nil, d.info, fmt.Errorf("trailing data at %d", d.i)
	}
	return v, d.info, nil
}

var errEOF = errors.New("unexpected end of text")

func (d *decoder) ws() {
	for d.i < len(d.s) {
		switch d.s[d.i] {
		case ' ', '\t', '\n', '\r':
			d.i++
		default:
			return
		}
	}
}

func isDigit(b byte) bool { return '0' <= b && b <= '9' }

func (d *decoder) value(depth int) (any, error) {
	if depth > 1000 {
		return nil, errors.New("too deep")
	}
	if d.i >= len(d.s) {
		return nil, errEOF
	}
	c := d.s[d.i]
	switch {
	case c == '{':
		d.i++
		out := Obj{}
		d.ws()
		if d.i < len(d.s) && d.s[d.i] == '}' {
			d.i++
			return out, nil
		}
		for {
			d.ws()
			if d.i >= len(d.s) {
				return nil, errEOF
			}
			if d.s[d.i] != '"' {
				return nil, fmt.Errorf("expected member name at %d", d.i)
			}
			k, err := d.str()
			if err != nil {
				return nil, err
			}
			d.ws()
			if d.i >= len(d.s) {
				return nil, errEOF
			}
			if d.s[d.i] != ':' {
				return nil, fmt.Errorf("expected ':' at %d", d.i)
			}
			d.i++
			d.ws()
			v, err := d.value(depth + 1)
			if err != nil {
				return nil, err
			}
			out = append(out, Member{Key: k, Val: v})
			d.ws()
			if d.i >= len(d.s) {
				return nil, errEOF
			}
			switch d.s[d.i] {
			case ',':
				d.i++
			case '}':
				d.i++
				return out, nil
			default:
				return nil, fmt.Errorf("expected ',' or '}' at %d", d.i)
			}
		}
	case c == '[':
		d.i++
		out := []any{}
		d.ws()
		if d.i < len(d.s) && d.s[d.i] == ']' {
			d.i++
			return out, nil
		}
		for {
			d.ws()
			v, err := d.value(depth + 1)
			if err != nil {
				return nil, err
			}
			out = append(out, v)
			d.ws()
			if d.i >= len(d.s) {
				return nil, errEOF
			}
			switch d.s[d.i] {
			case ',':
				d.i++
			case ']':
				d.i++
				return out, nil
			default:
				return nil, fmt.Errorf("expected ',' or ']' at %d", d.i)
			}
		}
	case c == '"':
		return d.str()
	case c == '-' || isDigit(c):
		return d.num()
	case c == 't':
		return true, d.word("true")
	case c == 'f':
		return false, d.word("false")
	case c == 'n':
		return nil, d.word("null")
	}
	return nil, fmt.Errorf("unexpected byte 0x%02x at %d", c, d.i)
}

func (d *decoder) word(w string) error {
	if len(d.s)-d.i < len(w) || string(d.s[d.i:d.i+len(w)]) != w {
		return fmt.Errorf("expected %s at %d", w, d.i)
	}
	d.i += len(w)
	return nil
}

func (d *decoder) num() (any, error) {
	s, i := d.s, d.i
	start := i
	if s[i] == '-' {
		i++
	}
	if i >= len(s) || !isDigit(s[i]) {
		return nil, fmt.Errorf("bad number at %d", start)
	}
	if s[i] == '0' {
		i++
	} else {
		for i < len(s) && isDigit(s[i]) {
			i++
		}
	}
	if i < len(s) && s[i] == '.' {
		i++
		if i >= len(s) || !isDigit(s[i]) {
			return nil, fmt.Errorf("bad fraction at %d", start)
		}
		for i < len(s) && isDigit(s[i]) {
			i++
		}
	}
	if i < len(s) && (s[i] == 'e' || s[i] == 'E') {
		i++
		if i < len(s) && (s[i] == '+' || s[i] == '-') {
			i++
		}
		if i >= len(s) || !isDigit(s[i]) {
			return nil, fmt.Errorf("bad exponent at %d", start)
		}
		for i < len(s) && isDigit(s[i]) {
			i++
		}
	}
	d.i = i
	return Num{Lit: string(s[start:i])}, nil
}

func (d *decoder) hex4() (rune, error) {
	if len(d.s)-d.i < 4 {
		return 0, errEOF
	}
	var r rune
	for k := 0; k < 4; k++ {
		c := d.s[d.i+k]
		var v byte
		switch {
		case '0' <= c && c <= '9':
			v = c - '0'
		case 'a' <= c && c <= 'f':
			v = c - 'a' + 10
		case 'A' <= c && c <= 'F':
			v = c - 'A' + 10
		default:
			return 0, fmt.Errorf("bad hex digit at %d", d.i+k)
		}
		r = r*16 + rune(v)
	}
	d.i += 4
	return r, nil
}

func isHigh(r rune) bool { return 0xD800 <= r && r <= 0xDBFF }
func isLow(r rune) bool  { return 0xDC00 <= r && r <= 0xDFFF }

// lone appends the decoding of an unpaired surrogate code unit.
func (d *decoder) lone(out []byte, r rune) []byte {
	d.info.LoneSurrogate = true
	if d.r.WTF8Lone {
		return append(out, byte(0xE0|r>>12), byte(0x80|(r>>6)&0x3F), byte(0x80|r&0x3F))
	}
	return append(out, 0xEF, 0xBF, 0xBD)
}

func (d *decoder) str() (string, error) {
	d.i++ // opening quote
	out := []byte{}
	for {
		if d.i >= len(d.s) {
			return "", errEOF
		}
		c := d.s[d.i]
		switch {
		case c == '"':
			d.i++
			return string(out), nil
		case c < 0x20:
			return "", fmt.Errorf("control byte 0x%02x in string at %d", c, d.i)
		case c == '\\':
			d.i++
			if d.i >= len(d.s) {
				return "", errEOF
			}
			e := d.s[d.i]
			d.i++
			switch e {
			case '"', '\\', '/':
				out = append(out, e)
			case 'b':
				out = append(out, 0x08)
			case 'f':
				out = append(out, 0x0C)
			case 'n':
				out = append(out, 0x0A)
			case 'r':
				out = append(out, 0x0D)
			case 't':
				out = append(out, 0x09)
			case 'u':
				r, err := d.hex4()
				if err != nil {
					return "", err
				}
				switch {
				case isHigh(r):
					paired := false
					if len(d.s)-d.i >= 6 && d.s[d.i] == '\\' && d.s[d.i+1] == 'u' {
						save := d.i
						d.i += 2
						if r2, err2 := d.hex4(); err2 == nil && isLow(r2) {
							cp := 0x10000 + (r-0xD800)<<10 + (r2 - 0xDC00)
							out = utf8.AppendRune(out, cp)
							paired = true
						} else {
							d.i = save
						}
					}
					if !paired {
						out = d.lone(out, r)
					}
				case isLow(r):
					out = d.lone(out, r)
				default:
					out = utf8.AppendRune(out, r)
				}
			default:
				return "", fmt.Errorf("bad escape \\%c at %d", e, d.i-1)
			}
		case c < 0x80:
			out = append(out, c)
			d.i++
		default:
			r, n := utf8.DecodeRune(d.s[d.i:])
			if r == utf8.RuneError && n == 1 {
				d.info.InvalidUTF8 = true
				if d.r.ReplaceInvalid {
					out = append(out, 0xEF, 0xBF, 0xBD)
				} else {
					out = append(out, c)
				}
				d.i++
			} else {
				out = append(out, d.s[d.i:d.i+n]...)
				d.i += n
			}
		}
	}
}

// Plain converts a reference tree to the encoding/json (UseNumber) shape:
// objects become maps with the last duplicate winning, numbers become their
// literal text wrapped by mk.
func Plain(v any, mk func(lit string) any) any {
	switch t := v.(type) {
	case Num:
		return mk(t.Lit)
	case []any:
		out := make([]any, len(t))
		for i, e := range t {
			out[i] = Plain(e, mk)
		}
		return out
	case Obj:
		out := make(map[string]any, len(t))
		for _, m := range t {
			out[m.Key] = Plain(m.Val, mk)
		}
		return out
	}
	return v
}

// ------------------------------------------------------------------ numbers

// Norm is the canonical form ±Mant × 10^Exp of a decimal text; Mant has
// neither leading nor trailing zeros. Two texts denote the same rational
// number iff their canonical forms are equal (all zeros are equal).
type Norm struct {
	Neg  bool
	Zero bool
	Mant string
	Exp  *big.Int
}

// Normalize reads a decimal text leniently (optional sign, digits, optional
// point and digits, optional exponent) and canonicalises it. ok is false when
// the text is not such a number at all.
func Normalize(t string) (n Norm, ok bool) {
	i := 0
	if i < len(t) && (t[i] == '-' || t[i] == '+') {
		n.Neg = t[i] == '-'
		i++
	}
	is := i
	for i < len(t) && isDigit(t[i]) {
		i++
	}
	intD := t[is:i]
	fracD := ""
	if i < len(t) && t[i] == '.' {
		i++
		fs := i
		for i < len(t) && isDigit(t[i]) {
			i++
		}
		fracD = t[fs:i]
	}
	if len(intD)+len(fracD) == 0 {
		return n, false
	}
	exp := new(big.Int)
	if i < len(t) && (t[i] == 'e' || t[i] == 'E') {
		i++
		neg := false
		if i < len(t) && (t[i] == '+' || t[i] == '-') {
			neg = t[i] == '-'
			i++
		}
		es := i
		for i < len(t) && isDigit(t[i]) {
			i++
		}
		if es == i {
			return n, false
		}
		if _, good := exp.SetString(t[es:i], 10); !good {
			return n, false
		}
		if neg {
			exp.Neg(exp)
		}
	}
	if i != len(t) {
		return n, false
	}
	digits := strings.TrimLeft(intD+fracD, "0")
	if digits == "" {
		n.Zero = true
		n.Exp = new(big.Int)
		return n, true
	}
	trimmed := strings.TrimRight(digits, "0")
	exp.Add(exp, big.NewInt(int64(len(digits)-len(trimmed)-len(fracD))))
	n.Mant, n.Exp = trimmed, exp
	return n, true
}

// Equal reports whether two canonical forms denote the same number.
func (a Norm) Equal(b Norm) bool {
	if a.Zero || b.Zero {
		return a.Zero && b.Zero
	}
	return a.Neg == b.Neg && a.Mant == b.Mant && a.Exp.Cmp(b.Exp) == 0
}

// Rat materialises the number (only for |Exp| ≤ 5000; used by self-checks).
func (a Norm) Rat() (*big.Rat, bool) {
	if a.Zero {
		return new(big.Rat), true
	}
	if !a.Exp.IsInt64() || a.Exp.Int64() > 5000 || a.Exp.Int64() < -5000 {
		return nil, false
	}
	m, _ := new(big.Int).SetString(a.Mant, 10)
	if a.Neg {
		m.Neg(m)
	}
	e := a.Exp.Int64()
	p := new(big.Int).Exp(big.NewInt(10), big.NewInt(abs64(e)), nil)
	r := new(big.Rat)
	if e >= 0 {
		r.SetInt(m.Mul(m, p))
	} else {
		r.SetFrac(m, p)
	}
	return r, true
}

func abs64(x int64) int64 {
	if x < 0 {
		return -x
	}
	return x
}

// NumOracle judges results for one number literal.
type NumOracle struct {
	Lit       string
	N         Norm
	PlainInt  bool // no '.', no exponent
	MustInt64 bool // plain integer literal whose magnitude fits int64
	F         float64
	Overflow  bool // ParseFloat overflowed (F is ±Inf)
}

const maxInt64Digits = "9223372036854775807"

// NewNumOracle prepares the oracle for a valid JSON number literal.
func NewNumOracle(lit string) (*NumOracle, error) {
	o := &NumOracle{Lit: lit}
	var ok bool
	if o.N, ok = Normalize(lit); !ok {
		return nil, fmt.Errorf("not a number literal: %q", lit)
	}
	o.PlainInt = !strings.ContainsAny(lit, ".eE")
	if o.PlainInt {
		mag := strings.TrimPrefix(lit, "-")
		o.MustInt64 = len(mag) < len(maxInt64Digits) || (len(mag) == len(maxInt64Digits) && mag <= maxInt64Digits)
	}
	f, err := strconv.ParseFloat(lit, 64)
	if err != nil {
		var ne *strconv.NumError
		if errors.As(err, &ne) && ne.Err == strconv.ErrRange {
			o.Overflow = math.IsInf(f, 0)
		} else {
			return nil, fmt.Errorf("ParseFloat(%q): %v", lit, err)
		}
	}
	o.F = f
	return o, nil
}

// Discrepancy kinds returned by the Check* methods ("" = accepted).
const (
	WrongValue          = "wrong-value"           // an int64 that is not the literal's value, or a float64 far from it
	WrongValueInexact   = "wrong-value:inexact"   // a finite float64 close to (within 2^22 representable values of) but not the nearest float64
	WrongValueNonFinite = "wrong-value:nonfinite" // ±Inf or NaN where the nearest float64 is finite
	WrongKind           = "wrong-kind"            // right value, but a plain in-range integer did not come back as int64
	LostDigits          = "lost-digits"           // number text that denotes a different number (or no number)
	LostExpSign         = "lost-digits:exp-sign"  // number text that denotes the literal with its exponent's '-' dropped
)

// CheckInt judges an int64 result.
func (o *NumOracle) CheckInt(v int64) string {
	if o.PlainInt && !o.N.Zero {
		if strconv.FormatInt(v, 10) == o.Lit {
			return ""
		}
		return WrongValue
	}
	n, _ := Normalize(strconv.FormatInt(v, 10))
	if n.Equal(o.N) {
		return ""
	}
	return WrongValue
}

// CheckFloat judges a float64 result (the sign of a zero is not judged).
func (o *NumOracle) CheckFloat(f float64) string {
	if f == o.F { // ±Inf only equals o.F when ParseFloat overflowed as well
		if o.MustInt64 {
			return WrongKind
		}
		return ""
	}
	if math.IsNaN(f) || math.IsInf(f, 0) {
		if math.IsInf(o.F, 0) {
			return WrongValue // the infinity of the wrong sign
		}
		return WrongValueNonFinite
	}
	if !math.IsInf(o.F, 0) {
		// distance counted in representable float64 values
		a, b := math.Float64bits(math.Abs(f)), math.Float64bits(math.Abs(o.F))
		var d uint64
		switch {
		case (f < 0) != (o.F < 0) && f != 0 && o.F != 0:
			d = a + b
		case a > b:
			d = a - b
		default:
			d = b - a
		}
		if d <= 1<<22 {
			return WrongValueInexact
		}
	}
	return WrongValue
}

// CheckText judges a json.Number / gen.Big / Number(string) result.
func (o *NumOracle) CheckText(s string) string {
	n, ok := Normalize(s)
	if !ok {
		return LostDigits
	}
	if !n.Equal(o.N) {
		// the literal with the '-' of its exponent dropped?
		j := strings.IndexAny(s, "eE")
		if i := strings.IndexAny(o.Lit, "eE"); i >= 0 && i+1 < len(o.Lit) && o.Lit[i+1] == '-' && j >= 0 && !strings.HasPrefix(s[j+1:], "-") {
			if alt, ok := Normalize(o.Lit[:i+1] + o.Lit[i+2:]); ok && alt.Equal(n) {
				return LostExpSign
			}
		}
		return LostDigits
	}
	if o.MustInt64 {
		return WrongKind
	}
	return ""
}

// Accepts describes the accepted results (for failure reports).
func (o *NumOracle) Accepts() string {
	if o.MustInt64 {
		return "int64 " + o.Lit
	}
	return fmt.Sprintf("int64 equal to %s | float64 %v | number text denoting %s", o.Lit, o.F, o.Lit)
}
