package valref

import (
	"bytes"
	"encoding/json"
	"math"
	"math/big"
	"reflect"
	"strconv"
	"testing"
)

func TestDecodeHand(t *testing.T) {
	cases := []struct {
		in   string
		want any
	}{
		{`null`, nil},
		{` true `, true},
		{`"a\"\\\/\b\f\n\r\t"`, "a\"\\/\b\f\n\r\t"},
		{`"\u0041\u00e9\u20AC\uffff"`, "Aé€\uffff"},
		{`"\uD83D\uDE00"`, "😀"},
		{`"\ud83d"`, "\ufffd"},
		{`"\ude00\ud83d"`, "\ufffd\ufffd"},
		{`"\ude00\ud83d\ude00"`, "\ufffd😀"},
		{`"\ud83d\ud83d\ude00"`, "\ufffd😀"},
		{`"\ud83dx"`, "\ufffdx"},
		{"\"\x80\xff\"", "\x80\xff"},
		{`-1.50e+3`, Num{"-1.50e+3"}},
		{`[1,[],{}]`, []any{Num{"1"}, []any{}, Obj{}}},
		{"{\"a\":1 ,\n\"a\" : [2]}", Obj{{"a", Num{"1"}}, {"a", []any{Num{"2"}}}}},
	}
	for _, c := range cases {
		got, _, err := Decode([]byte(c.in), Reading{})
		if err != nil || !reflect.DeepEqual(got, c.want) {
			t.Errorf("%q: got %#v err %v, want %#v", c.in, got, err, c.want)
		}
	}
	if v, info, _ := Decode([]byte(`"\ud83d"`), Reading{WTF8Lone: true}); v != "\xed\xa0\xbd" || !info.LoneSurrogate {
		t.Errorf("wtf8: %q %+v", v, info)
	}
	if v, info, _ := Decode([]byte("\"\x80é\""), Reading{ReplaceInvalid: true}); v != "\ufffdé" || !info.InvalidUTF8 {
		t.Errorf("replace: %q %+v", v, info)
	}
	for _, bad := range []string{``, `[`, `[1,]`, `{"a"}`, `{"a":}`, `01`, `1.`, `.5`, `1e`, `-`, `"\x"`, `"\u12"`, "\"\n\"", `tru`, `1 2`, `{"a":1,}`, `{1:2}`} {
		if _, _, err := Decode([]byte(bad), Reading{}); err == nil {
			t.Errorf("%q accepted", bad)
		}
	}
}

// The decoder agrees with encoding/json (UseNumber) on valid-UTF-8 texts.
func TestDecodeVsStd(t *testing.T) {
	texts := []string{`{"a":{"b":1,"b":2},"a":[3,"x\u00e9\ud83d\ude00\ud800"],"c":null,"d":true,"e":false,"f":-0.0e-7}`,
		`[[[[]]],{},"",0,-0,1E400," \t"]`, "\"\u00e9\u20ac\U0001F600\""}
	for _, s := range texts {
		ref, _, err := Decode([]byte(s), Reading{})
		if err != nil {
			t.Fatalf("%s: %v", s, err)
		}
		dec := json.NewDecoder(bytes.NewReader([]byte(s)))
		dec.UseNumber()
		var std any
		if err := dec.Decode(&std); err != nil {
			t.Fatalf("%s: %v", s, err)
		}
		if got := Plain(ref, func(l string) any { return json.Number(l) }); !reflect.DeepEqual(got, std) {
			t.Errorf("%s:\n ref %#v\n std %#v", s, got, std)
		}
	}
}

func TestNormalize(t *testing.T) {
	same := [][]string{
		{"1", "1.0", "10e-1", "0.1e1", "1e0", "1E+0", "+1", "001", "1.", "100000e-5", "0.00001e5"},
		{"0", "-0", "0.000", "0e99999", "-0.0E-5"},
		{"-12.5", "-125e-1", "-0.125E2", "-1250.0e-2"},
		{"1e99999", "10e99998", "0.1e100000"},
		{"1e-99999", "0.1e-99998"},
		{"9223372036854775807", "9223372036854775807.000", "9.223372036854775807e18"},
		{"1.0000000000000000000000001e2", "100.00000000000000000000001"},
	}
	for i, g := range same {
		a, ok := Normalize(g[0])
		if !ok {
			t.Fatalf("%q not a number", g[0])
		}
		for _, s := range g[1:] {
			b, ok := Normalize(s)
			if !ok || !a.Equal(b) {
				t.Errorf("%q != %q", g[0], s)
			}
		}
		for j, h := range same {
			if i != j {
				b, _ := Normalize(h[0])
				if a.Equal(b) {
					t.Errorf("%q == %q", g[0], h[0])
				}
			}
		}
	}
	for _, bad := range []string{"", "-", ".", "e5", "1e", "1e+", "1x", "0x10", "1.2.3", "--1", "NaN", "Inf"} {
		if _, ok := Normalize(bad); ok {
			t.Errorf("%q accepted", bad)
		}
	}
	for _, p := range [][2]string{{"1", "10"}, {"1", "-1"}, {"0.1", "0.01"}, {"001", "0.00000000000000000001"}, {"10000001e2", "1.0000000000000000000000001e2"}, {"1e5", "1e-5"}} {
		a, _ := Normalize(p[0])
		b, _ := Normalize(p[1])
		if a.Equal(b) {
			t.Errorf("%q == %q", p[0], p[1])
		}
	}
}

// Normalize-equality is equality of rationals (cross-check with big.Rat).
func TestNormalizeVsRat(t *testing.T) {
	ints := []string{"0", "1", "10", "100", "12", "120"}
	fracs := []string{"", ".0", ".1", ".10", ".01", ".012", ".00"}
	exps := []string{"", "e0", "e1", "e-1", "e2", "E-2", "e+3"}
	var all []string
	for _, s := range []string{"", "-"} {
		for _, i := range ints {
			for _, f := range fracs {
				for _, e := range exps {
					all = append(all, s+i+f+e)
				}
			}
		}
	}
	for _, a := range all {
		na, ok := Normalize(a)
		ra, ok2 := new(big.Rat).SetString(a)
		if !ok || !ok2 {
			t.Fatalf("%q", a)
		}
		if r, ok := na.Rat(); !ok || r.Cmp(ra) != 0 {
			t.Fatalf("Rat(%q) = %v want %v", a, r, ra)
		}
		for _, b := range all {
			nb, _ := Normalize(b)
			rb, _ := new(big.Rat).SetString(b)
			if na.Equal(nb) != (ra.Cmp(rb) == 0) {
				t.Fatalf("%q vs %q: norm %v rat %v", a, b, na.Equal(nb), ra.Cmp(rb) == 0)
			}
		}
	}
}

// strconv.ParseFloat returns a float64 nearest to the literal: checked
// exactly with big.Rat against both neighbours.
func TestParseFloatIsNearest(t *testing.T) {
	lits := []string{"0.1", "0.3", "1e23", "8.5e22", "123456789012345678901234567890", "0.00000000000000000001",
		"9223372036854775807", "9223372036854775808", "18446744073709551615", "1.7976931348623157e308", "4.9e-324", "2.5e-324",
		"111111111111111111.111111111111111111e22", "0.999999999999999999999", "5e-1", "1.0000000000000000000000001e2",
		"99999999999999999999e-5", "1e-307", "9.999999999999999999e102", "12345678901234567890.12345678901234567890e-23"}
	for _, l := range lits {
		o, err := NewNumOracle(l)
		if err != nil {
			t.Fatal(err)
		}
		x, _ := new(big.Rat).SetString(l)
		dist := func(f float64) *big.Rat {
			r := new(big.Rat).SetFloat64(f)
			r.Sub(r, x)
			return r.Abs(r)
		}
		d0 := dist(o.F)
		for _, nb := range []float64{math.Nextafter(o.F, math.Inf(1)), math.Nextafter(o.F, math.Inf(-1))} {
			if !math.IsInf(nb, 0) && dist(nb).Cmp(d0) < 0 {
				t.Errorf("%s: neighbour %v is nearer than %v", l, nb, o.F)
			}
		}
	}
}

func TestOracle(t *testing.T) {
	o, _ := NewNumOracle("9223372036854775807")
	if !o.MustInt64 || o.CheckInt(math.MaxInt64) != "" || o.CheckInt(math.MaxInt64-1) != WrongValue ||
		o.CheckText("9223372036854775807") != WrongKind || o.CheckText("922337203685477580") != LostDigits ||
		o.CheckFloat(9223372036854775807) != WrongKind {
		t.Errorf("maxint64 oracle wrong")
	}
	o, _ = NewNumOracle("9223372036854775808")
	if o.MustInt64 || o.CheckText("9223372036854775808") != "" || o.CheckFloat(9223372036854775808) != "" || o.CheckInt(math.MinInt64) != WrongValue {
		t.Errorf("maxint64+1 oracle wrong")
	}
	o, _ = NewNumOracle("-9223372036854775808")
	if o.MustInt64 || o.CheckInt(math.MinInt64) != "" {
		t.Errorf("minint64 oracle wrong")
	}
	o, _ = NewNumOracle("-0")
	if !o.MustInt64 || o.CheckInt(0) != "" || o.CheckFloat(math.Copysign(0, -1)) != WrongKind {
		t.Errorf("-0 oracle wrong")
	}
	o, _ = NewNumOracle("-0.0")
	if o.CheckInt(0) != "" || o.CheckFloat(0) != "" || o.CheckFloat(math.Copysign(0, -1)) != "" || o.CheckText("0") != "" {
		t.Errorf("-0.0 oracle wrong")
	}
	o, _ = NewNumOracle("1e400")
	if !o.Overflow || o.CheckFloat(math.Inf(1)) != "" || o.CheckFloat(math.Inf(-1)) != WrongValue || o.CheckFloat(math.MaxFloat64) != WrongValue ||
		o.CheckText("1E+400") != "" || o.CheckText("10e399") != "" {
		t.Errorf("1e400 oracle wrong")
	}
	o, _ = NewNumOracle("1e308")
	if o.CheckFloat(math.Inf(1)) != WrongValueNonFinite || o.CheckFloat(math.NaN()) != WrongValueNonFinite || o.CheckFloat(1e308) != "" || o.CheckFloat(math.Nextafter(1e308, 0)) != WrongValueInexact {
		t.Errorf("1e308 oracle wrong")
	}
	o, _ = NewNumOracle("0.00000000000000000001")
	if o.CheckFloat(1e-20) != "" || o.CheckText("001") != LostDigits || o.CheckFloat(0.766) != WrongValue || o.CheckText("1e-20") != "" {
		t.Errorf("1e-20 oracle wrong")
	}
	o, _ = NewNumOracle("12345678901234567890.5e-5")
	if o.CheckText("12345678901234567890.5e5") != LostExpSign || o.CheckText("12345678901234567890.5e-5") != "" || o.CheckText("1234567890123456789.5e5") != LostDigits {
		t.Errorf("exp sign oracle wrong")
	}
	o, _ = NewNumOracle("1.00000000000000000000e-1")
	if o.CheckText("100e-1") != LostDigits || o.CheckText("1e1") != LostExpSign || o.CheckText("100e-3") != "" {
		t.Errorf("exp sign coincidence misjudged")
	}
	o, _ = NewNumOracle("1e-400")
	if o.CheckFloat(5e-324) != WrongValueInexact || o.CheckFloat(-5e-324) != WrongValueInexact || o.CheckFloat(1e-300) != WrongValue {
		t.Errorf("underflow oracle wrong")
	}
	o, _ = NewNumOracle("100")
	if o.CheckInt(100) != "" || o.CheckFloat(100) != WrongKind {
		t.Errorf("100 oracle wrong")
	}
	o, _ = NewNumOracle("1.5e1")
	if o.CheckInt(15) != "" || o.CheckFloat(15) != "" || o.CheckText("15") != "" || o.CheckInt(14) != WrongValue {
		t.Errorf("1.5e1 oracle wrong")
	}
	o, _ = NewNumOracle("1e-400")
	if o.CheckFloat(0) != "" || o.CheckInt(0) != WrongValue || o.CheckText("0") != LostDigits {
		t.Errorf("1e-400 oracle wrong")
	}
	if _, err := strconv.ParseFloat("1e99999", 64); err == nil {
		t.Errorf("ParseFloat does not report overflow")
	}
}
