// Package asmref is a small independent reading of the asm function
// descriptions in ojg's asm/doc.go. It evaluates a plan given as plain data
// ([]any / string / number ...) and answers with the SET of acceptable
// outcomes: where doc.go is silent or ambiguous every reasonable reading is
// kept, and where no opinion is possible the answer is Unknown. It shares no
// code with ojg (it has its own path walker for the few path forms it knows).
package asmref

import (
	"math"
	"strconv"
	"strings"
	"time"
)

// Unspecified is the value of a call whose description does not say what it
// returns (set, setall). Using it as an operand makes the outcome Unknown.
type unspecified struct{}

// Unspecified is the sentinel for "any value".
var Unspecified = unspecified{}

// Frag is one path fragment: Kind 'c' child, 'n' index, '*' wildcard.
type Frag struct {
	Kind byte
	Key  string
	Idx  int
}

// Path is a parsed path; At says it starts at the local (@) value.
type Path struct {
	At    bool
	Frags []Frag
}

// String prints the path in the normal form ($.a[1][*]).
func (p Path) String() string {
	var b strings.Builder
	if p.At {
		b.WriteByte('@')
	} else {
		b.WriteByte('$')
	}
	for _, f := range p.Frags {
		switch f.Kind {
		case 'c':
			b.WriteByte('.')
			b.WriteString(f.Key)
		case 'n':
			b.WriteString("[" + strconv.Itoa(f.Idx) + "]")
		default:
			b.WriteString("[*]")
		}
	}
	return b.String()
}

func isName(c byte) bool {
	return c == '_' || ('a' <= c && c <= 'z') || ('A' <= c && c <= 'Z') || ('0' <= c && c <= '9')
}

// parseFrags reads (.name | [int] | [*] | .*)*; a leading bare name is allowed
// when headless (used by root/at whose arguments are joined with '.').
func parseFrags(s string, headless bool) ([]Frag, bool) {
	var out []Frag
	i := 0
	if headless {
		j := 0
		for j < len(s) && isName(s[j]) {
			j++
		}
		if j == 0 {
			return nil, false
		}
		out = append(out, Frag{Kind: 'c', Key: s[:j]})
		i = j
	}
	for i < len(s) {
		switch s[i] {
		case '.':
			i++
			if i < len(s) && s[i] == '*' {
				out = append(out, Frag{Kind: '*'})
				i++
				continue
			}
			j := i
			for j < len(s) && isName(s[j]) {
				j++
			}
			if j == i {
				return nil, false
			}
			out = append(out, Frag{Kind: 'c', Key: s[i:j]})
			i = j
		case '[':
			j := strings.IndexByte(s[i:], ']')
			if j < 0 {
				return nil, false
			}
			in := s[i+1 : i+j]
			if in == "*" {
				out = append(out, Frag{Kind: '*'})
			} else {
				n, err := strconv.Atoi(in)
				if err != nil {
					return nil, false
				}
				out = append(out, Frag{Kind: 'n', Idx: n})
			}
			i += j + 1
		default:
			return nil, false
		}
	}
	return out, true
}

// ParsePath understands ($|@)(.name|[int]|[*]|.*)* and nothing else.
func ParsePath(s string) (Path, bool) {
	if s == "" || (s[0] != '$' && s[0] != '@') {
		return Path{}, false
	}
	fr, ok := parseFrags(s[1:], false)
	if !ok {
		return Path{}, false
	}
	return Path{At: s[0] == '@', Frags: fr}, true
}

// Out is the set of acceptable outcomes of a call.
type Out struct {
	Unknown  bool  // no opinion: everything is acceptable
	CanRaise bool  // raising an error is acceptable
	Vals     []any // acceptable return values (empty: must raise)
}

func unknown() Out         { return Out{Unknown: true} }
func raise() Out           { return Out{CanRaise: true} }
func val(v any) Out        { return Out{Vals: []any{v}} }
func vals(v ...any) Out    { return Out{Vals: v} }
func orRaise(v ...any) Out { return Out{Vals: v, CanRaise: true} }

// single returns the one outcome of o when it has exactly one.
func (o Out) single() (v any, raised, ok bool) {
	switch {
	case o.Unknown:
		return nil, false, false
	case o.CanRaise && len(o.Vals) == 0:
		return nil, true, true
	case !o.CanRaise && len(o.Vals) == 1:
		return o.Vals[0], false, true
	}
	return nil, false, false
}

// operand is single() for a value that is going to be looked at: the
// unspecified return of set/setall gives no single outcome.
func (o Out) operand() (v any, raised, ok bool) {
	v, raised, ok = o.single()
	if _, u := v.(unspecified); u {
		return nil, false, false
	}
	return
}

// M evaluates plans against Root (which it mutates for set/del).
type M struct {
	Fns  map[string]bool // every function name the implementation knows
	Root map[string]any
	// RootUnknown is set when the reference can no longer vouch for the
	// content of Root (an ambiguity involved side effects).
	RootUnknown bool
	tainted     bool // a container was stored by set: later mutations may alias
}

type env struct {
	local  any
	isRoot bool // local is the root itself
}

// Run evaluates a whole plan array as asm.NewPlan + Execute would.
func (m *M) Run(plan []any) Out {
	if len(plan) == 0 {
		return unknown()
	}
	e := env{local: m.Root, isRoot: true}
	var o Out
	if name, _ := plan[0].(string); name != "" && m.Fns[name] {
		o = m.call(name, plan[1:], e)
	} else {
		o = m.call("asm", plan, e) // "the first asm is optional"
	}
	if o.Unknown {
		m.RootUnknown = true
	}
	return o
}

func (m *M) isCall(a any) (string, []any, bool) {
	l, ok := a.([]any)
	if !ok || len(l) == 0 {
		return "", nil, false
	}
	name, _ := l[0].(string)
	if name == "" || !m.Fns[name] {
		return "", nil, false
	}
	return name, l[1:], true
}

// hasEvaluable reports whether a literal container hides something that a
// different reading might evaluate (a call or a $/@ string).
func (m *M) hasEvaluable(a any) bool {
	switch t := a.(type) {
	case string:
		return t != "" && (t[0] == '$' || t[0] == '@')
	case []any:
		if _, _, ok := m.isCall(t); ok {
			return true
		}
		for _, e := range t {
			if m.hasEvaluable(e) {
				return true
			}
		}
	case map[string]any:
		for _, e := range t {
			if m.hasEvaluable(e) {
				return true
			}
		}
	}
	return false
}

// pure reports whether evaluating a can have no side effect and is fully
// modelled (so it may be evaluated speculatively).
func (m *M) pure(a any) bool {
	name, args, ok := m.isCall(a)
	if !ok {
		return true
	}
	switch name {
	case "set", "setall", "del", "delall", "each", "asm":
		return false
	}
	if _, known := table[name]; !known {
		return false
	}
	if name == "quote" {
		return true
	}
	if name == "cond" {
		for _, p := range args {
			if l, ok := p.([]any); ok {
				for _, x := range l {
					if !m.pure(x) {
						return false
					}
				}
			}
		}
		return true
	}
	for _, x := range args {
		if !m.pure(x) {
			return false
		}
	}
	return true
}

// eval evaluates one argument: call, path or literal.
func (m *M) eval(a any, e env) Out {
	if name, args, ok := m.isCall(a); ok {
		return m.call(name, args, e)
	}
	switch t := a.(type) {
	case string:
		if t != "" && (t[0] == '$' || t[0] == '@') {
			p, ok := ParsePath(t)
			if !ok {
				return unknown() // ojg may or may not read this as a path
			}
			if m.blind(p, e, false) {
				return unknown()
			}
			v, ok := m.first(p, e, nil, false)
			if !ok {
				return unknown()
			}
			return val(v)
		}
		return val(t)
	case []any, map[string]any:
		if m.hasEvaluable(t) {
			return unknown()
		}
	}
	return val(a)
}

// base picks the data a path applies to.
func (m *M) base(p Path, e env, data any, hasData bool) any {
	switch {
	case hasData:
		return data
	case p.At:
		return e.local
	}
	return m.Root
}

// blind: the path starts at a local value the reference does not know (the
// unspecified return of set/setall).
func (m *M) blind(p Path, e env, hasData bool) bool {
	_, u := e.local.(unspecified)
	return u && p.At && !hasData
}

func index(l []any, i int) (int, bool) {
	if i < 0 {
		i += len(l)
	}
	return i, 0 <= i && i < len(l)
}

// all returns every match in document order; ok=false when the order depends
// on map iteration.
func all(v any, fr []Frag) (out []any, ok bool) {
	if len(fr) == 0 {
		return []any{v}, true
	}
	f := fr[0]
	switch f.Kind {
	case 'c':
		if mp, is := v.(map[string]any); is {
			if c, has := mp[f.Key]; has {
				return all(c, fr[1:])
			}
		}
	case 'n':
		if l, is := v.([]any); is {
			if i, in := index(l, f.Idx); in {
				return all(l[i], fr[1:])
			}
		}
	default:
		switch t := v.(type) {
		case []any:
			for _, c := range t {
				sub, ok := all(c, fr[1:])
				if !ok {
					return nil, false
				}
				out = append(out, sub...)
			}
		case map[string]any:
			if len(t) > 1 {
				return nil, false
			}
			for _, c := range t {
				return all(c, fr[1:])
			}
		}
	}
	return out, true
}

func (m *M) first(p Path, e env, data any, hasData bool) (any, bool) {
	l, ok := all(m.base(p, e, data, hasData), p.Frags)
	if !ok {
		return nil, false
	}
	if len(l) == 0 {
		return nil, true
	}
	return l[0], true
}

type fn func(m *M, args []any, e env) Out

var table map[string]fn

func init() {
	table = map[string]fn{
		"sum": sum, "+": sum,
		"dif": func(m *M, a []any, e env) Out { return arith(m, a, e, '-') }, "-": func(m *M, a []any, e env) Out { return arith(m, a, e, '-') },
		"product": func(m *M, a []any, e env) Out { return arith(m, a, e, '*') }, "*": func(m *M, a []any, e env) Out { return arith(m, a, e, '*') },
		"quotient": func(m *M, a []any, e env) Out { return arith(m, a, e, '/') }, "/": func(m *M, a []any, e env) Out { return arith(m, a, e, '/') },
		"mod": mod,
		"eq":  func(m *M, a []any, e env) Out { return equal(m, a, e, false) }, "==": func(m *M, a []any, e env) Out { return equal(m, a, e, false) },
		"equal": func(m *M, a []any, e env) Out { return equal(m, a, e, false) },
		"neq":   func(m *M, a []any, e env) Out { return equal(m, a, e, true) }, "!=": func(m *M, a []any, e env) Out { return equal(m, a, e, true) },
		"lt": func(m *M, a []any, e env) Out { return order(m, a, e, "<") }, "<": func(m *M, a []any, e env) Out { return order(m, a, e, "<") },
		"lte": func(m *M, a []any, e env) Out { return order(m, a, e, "<=") }, "<=": func(m *M, a []any, e env) Out { return order(m, a, e, "<=") },
		"gt": func(m *M, a []any, e env) Out { return order(m, a, e, ">") }, ">": func(m *M, a []any, e env) Out { return order(m, a, e, ">") },
		"gte": func(m *M, a []any, e env) Out { return order(m, a, e, ">=") }, ">=": func(m *M, a []any, e env) Out { return order(m, a, e, ">=") },
		"and": func(m *M, a []any, e env) Out { return logic(m, a, e, true) },
		"or":  func(m *M, a []any, e env) Out { return logic(m, a, e, false) },
		"not": not, "cond": cond,
		"get": func(m *M, a []any, e env) Out { return get(m, a, e, false) }, "getall": func(m *M, a []any, e env) Out { return get(m, a, e, true) },
		"set": func(m *M, a []any, e env) Out { return set(m, a, e, false) }, "setall": func(m *M, a []any, e env) Out { return set(m, a, e, true) },
		"del": func(m *M, a []any, e env) Out { return del(m, a, e, false) }, "delall": func(m *M, a []any, e env) Out { return del(m, a, e, true) },
		"asm": asmFn, "list": list, "quote": quote,
		"at":   func(m *M, a []any, e env) Out { return mkPath(m, a, e, true) },
		"root": func(m *M, a []any, e env) Out { return mkPath(m, a, e, false) },
	}
}

// Modelled reports whether the reference implements the named function.
func Modelled(name string) bool { _, ok := table[name]; return ok }

func (m *M) call(name string, args []any, e env) Out {
	f := table[name]
	if f == nil {
		return unknown() // a function whose description asmref does not model (incl. each: "Each .")
	}
	return f(m, args, e)
}

// evalAll evaluates args left to right. It stops at the first raise (res
// raise) or at the first argument without a single outcome (res Unknown).
func (m *M) evalAll(args []any, e env) (vs []any, stop *Out) {
	for _, a := range args {
		v, raised, ok := m.eval(a, e).single()
		if !ok {
			o := unknown()
			return nil, &o
		}
		if raised {
			o := raise()
			return nil, &o
		}
		if _, u := v.(unspecified); u {
			o := unknown()
			return nil, &o
		}
		vs = append(vs, v)
	}
	return vs, nil
}

// i64 is the exact integer value of an integer (num goes through float64, which
// does not hold every int64).
func i64(v any) int64 {
	switch t := v.(type) {
	case int64:
		return t
	case int:
		return int64(t)
	}
	return 0
}

func num(v any) (f float64, isInt, ok bool) {
	switch t := v.(type) {
	case int64:
		return float64(t), true, true
	case int:
		return float64(t), true, true
	case float64:
		return t, false, true
	}
	return 0, false, false
}

func fmtNum(v any, style int) string {
	switch t := v.(type) {
	case int64:
		return strconv.FormatInt(t, 10)
	case int:
		return strconv.Itoa(t)
	case float64:
		switch style {
		case 0:
			return strconv.FormatFloat(t, 'g', -1, 64)
		case 1:
			return strconv.FormatFloat(t, 'f', -1, 64)
		default:
			s := strconv.FormatFloat(t, 'g', -1, 64)
			if t == math.Trunc(t) && !strings.ContainsAny(s, "e.") {
				s += ".0"
			}
			return s
		}
	}
	return ""
}

// sum: numbers add; "If any argument is a string then the result will be a
// string". Accepted string readings: left fold (numbers met before the first
// string are added first) and plain concatenation of every argument, each
// with three float spellings.
func sum(m *M, args []any, e env) Out {
	vs, stop := m.evalAll(args, e)
	if stop != nil {
		return *stop
	}
	if len(vs) == 0 {
		return unknown()
	}
	anyStr := false
	for _, v := range vs {
		if _, ok := v.(string); ok {
			anyStr = true
		} else if _, _, ok := num(v); !ok {
			return raise()
		}
	}
	if !anyStr {
		return val(foldNum(vs, '+', 0))
	}
	var out []any
	for style := 0; style < 3; style++ {
		// concatenate everything
		var b strings.Builder
		for _, v := range vs {
			if s, ok := v.(string); ok {
				b.WriteString(s)
			} else {
				b.WriteString(fmtNum(v, style))
			}
		}
		out = append(out, b.String())
		// left fold
		var acc any = vs[0]
		for _, v := range vs[1:] {
			_, _, an := num(acc)
			_, _, vn := num(v)
			if an && vn {
				acc = foldNum([]any{acc, v}, '+', 0)
				continue
			}
			as, ok := acc.(string)
			if !ok {
				as = fmtNum(acc, style)
			}
			s, ok := v.(string)
			if !ok {
				s = fmtNum(v, style)
			}
			acc = as + s
		}
		if _, ok := acc.(string); !ok {
			acc = fmtNum(acc, style)
		}
		out = append(out, acc)
	}
	return Out{Vals: out}
}

// foldNum folds numbers left to right. intDiv: 0 truncating, 1 flooring,
// 2 exact (float) division of two integers.
func foldNum(vs []any, op byte, intDiv int) any {
	acc := vs[0]
	for _, v := range vs[1:] {
		af, ai, _ := num(acc)
		bf, bi, _ := num(v)
		if ai && bi && !(op == '/' && intDiv == 2) {
			a, b := i64(acc), i64(v)
			switch op {
			case '+':
				acc = a + b
			case '-':
				acc = a - b
			case '*':
				acc = a * b
			case '/':
				q := a / b
				if intDiv == 1 && (a%b != 0) && ((a < 0) != (b < 0)) {
					q--
				}
				acc = q
			}
			continue
		}
		switch op {
		case '+':
			acc = af + bf
		case '-':
			acc = af - bf
		case '*':
			acc = af * bf
		case '/':
			acc = af / bf
		}
	}
	return acc
}

// arith: dif, product, quotient. "All arguments must be numbers. If any of the
// arguments are not a number an error is raised." quotient: "If an attempt is
// made to divide by zero an error will be raised."
func arith(m *M, args []any, e env, op byte) Out {
	vs, stop := m.evalAll(args, e)
	if stop != nil {
		return *stop
	}
	if len(vs) == 0 {
		return unknown()
	}
	for _, v := range vs {
		if _, _, ok := num(v); !ok {
			return raise()
		}
	}
	if len(vs) == 1 {
		switch op {
		case '-':
			return vals(vs[0], foldNum([]any{int64(0), vs[0]}, '-', 0)) // x, or LISP-style negation
		case '/':
			return unknown() // x or 1/x
		}
		return val(vs[0])
	}
	if op == '/' {
		for _, v := range vs[1:] {
			if f, _, _ := num(v); f == 0 {
				return raise()
			}
		}
		return vals(foldNum(vs, op, 0), foldNum(vs, op, 1), foldNum(vs, op, 2))
	}
	return val(foldNum(vs, op, 0))
}

// mod: "Returns the remainer of a modulo operation on the first two argument.
// Both arguments must be integers and are both required."
func mod(m *M, args []any, e env) Out {
	if len(args) < 2 {
		return raise()
	}
	vs, stop := m.evalAll(args[:2], e)
	if stop != nil {
		return *stop
	}
	var iv [2]int64
	for i, v := range vs {
		f, isInt, ok := num(v)
		switch {
		case !ok:
			return raise()
		case !isInt && f == math.Trunc(f):
			return unknown() // 2.0: an integer value in a float
		case !isInt:
			return raise()
		}
		iv[i] = i64(v)
	}
	if iv[1] == 0 {
		return unknown()
	}
	r := iv[0] % iv[1]
	fl := r
	if r != 0 && ((r < 0) != (iv[1] < 0)) {
		fl += iv[1]
	}
	if len(args) > 2 {
		for _, a := range args[2:] {
			if !m.pure(a) {
				return unknown()
			}
		}
		return orRaise(r, fl)
	}
	return vals(r, fl)
}

const (
	no = iota
	yes
	either
)

// same is the reference equality: 1 == 1.0 may be read either way.
func same(a, b any) int {
	if _, ok := a.(Path); ok {
		return either
	}
	if _, ok := b.(Path); ok {
		return either
	}
	if a == nil || b == nil {
		if a == nil && b == nil {
			return yes
		}
		return no
	}
	af, ai, an := num(a)
	bf, bi, bn := num(b)
	if an || bn {
		switch {
		case an && bn && ai && bi: // two integers: exactly
			if i64(a) == i64(b) {
				return yes
			}
			return no
		case !(an && bn), af != bf:
			return no
		case ai == bi:
			return yes
		}
		return either
	}
	switch ta := a.(type) {
	case bool:
		if tb, ok := b.(bool); ok && ta == tb {
			return yes
		}
	case string:
		if tb, ok := b.(string); ok && ta == tb {
			return yes
		}
	case time.Time:
		if tb, ok := b.(time.Time); ok && ta.Equal(tb) {
			if ta == tb {
				return yes
			}
			return either // same instant, different zone
		}
	case []any:
		tb, ok := b.([]any)
		if !ok || len(ta) != len(tb) {
			return no
		}
		r := yes
		for i := range ta {
			switch same(ta[i], tb[i]) {
			case no:
				return no
			case either:
				r = either
			}
		}
		return r
	case map[string]any:
		tb, ok := b.(map[string]any)
		if !ok || len(ta) != len(tb) {
			return no
		}
		r := yes
		for k, x := range ta {
			y, has := tb[k]
			if !has {
				return no
			}
			switch same(x, y) {
			case no:
				return no
			case either:
				r = either
			}
		}
		return r
	}
	return no
}

// evalPrefix evaluates args left to right until one raises. ok=false when an
// argument has no single outcome (the caller answers Unknown).
func (m *M) evalPrefix(args []any, e env) (vs []any, raisedAt int, ok bool) {
	for i, a := range args {
		v, raised, single := m.eval(a, e).single()
		if !single {
			return nil, 0, false
		}
		if raised {
			return vs, i, true
		}
		if _, u := v.(unspecified); u {
			return nil, 0, false
		}
		vs = append(vs, v)
	}
	return vs, len(args), true
}

// tailPure: the implementation may stop evaluating after argument i (short
// circuit) or evaluate everything; both are fair readings as long as the
// skipped arguments have no side effects.
func (m *M) tailPure(args []any, i int) bool {
	for _, a := range args[i+1:] {
		if !m.pure(a) {
			return false
		}
	}
	return true
}

// equal: "Returns true if all the argument are equal." neq: "Returns true if
// any the argument are not equal."
func equal(m *M, args []any, e env, negate bool) Out {
	vs, k, ok := m.evalPrefix(args, e)
	if !ok {
		return unknown()
	}
	if len(args) < 2 {
		return orRaise(!negate) // vacuous; insisting on two arguments is fair too
	}
	failAt, amb := -1, false
	for j := range vs {
		for x := 0; x < j; x++ {
			switch same(vs[x], vs[j]) {
			case no:
				if failAt < 0 {
					failAt = j
				}
			case either:
				amb = true
			}
		}
	}
	if failAt >= 0 && !m.tailPure(args, failAt) {
		return unknown()
	}
	switch {
	case k < len(args) && failAt >= 0:
		return orRaise(negate)
	case k < len(args):
		return raise()
	case failAt >= 0:
		return val(negate)
	case amb:
		return vals(true, false)
	}
	return val(!negate)
}

// order: "Returns true if each argument is less than any subsequent
// argument." Defined for all-number and all-string argument lists; anything
// else may raise or answer either way.
func order(m *M, args []any, e env, op string) Out {
	cmp := func(a, b any) (holds, defined bool) {
		af, _, an := num(a)
		bf, _, bn := num(b)
		as, ia := a.(string)
		bs, ib := b.(string)
		var c int
		switch {
		case an && bn:
			_, ai, _ := num(a)
			_, bi, _ := num(b)
			switch {
			case ai && bi && i64(a) < i64(b), !(ai && bi) && af < bf:
				c = -1
			case ai && bi && i64(a) > i64(b), !(ai && bi) && af > bf:
				c = 1
			}
		case ia && ib:
			c = strings.Compare(as, bs)
		default:
			return false, false
		}
		switch op {
		case "<":
			return c < 0, true
		case "<=":
			return c <= 0, true
		case ">":
			return c > 0, true
		}
		return c >= 0, true
	}
	vs, k, ok := m.evalPrefix(args, e)
	if !ok {
		return unknown()
	}
	if len(args) < 2 {
		return orRaise(true)
	}
	failAt, mixedAt := -1, -1
	for j := range vs {
		if j == 0 {
			_, _, n := num(vs[0])
			_, s := vs[0].(string)
			if !n && !s {
				mixedAt = 0
			}
		}
		for x := 0; x < j; x++ {
			holds, defined := cmp(vs[x], vs[j])
			if !defined && mixedAt < 0 {
				mixedAt = j
			}
			if defined && !holds && failAt < 0 {
				failAt = j
			}
		}
	}
	stop := failAt
	if mixedAt >= 0 && (stop < 0 || mixedAt < stop) {
		stop = mixedAt
	}
	if stop >= 0 && !m.tailPure(args, stop) {
		return unknown()
	}
	switch {
	case mixedAt >= 0:
		return orRaise(true, false)
	case k < len(args) && failAt >= 0:
		return orRaise(false)
	case k < len(args):
		return raise()
	}
	return val(failAt < 0)
}

// logic: and/or. "Any arguments that do not evaluate to a boolean or null
// (false) raise an error." Short circuit and full evaluation both accepted.
func logic(m *M, args []any, e env, isAnd bool) Out {
	if len(args) == 0 {
		return orRaise(isAnd)
	}
	vs, k, ok := m.evalPrefix(args, e)
	if !ok {
		return unknown()
	}
	decided := -1
	for j, v := range vs {
		b, isBool := v.(bool)
		if !isBool && v != nil {
			k = j // raises here
			break
		}
		if b != isAnd && decided < 0 {
			decided = j
		}
	}
	if decided >= k {
		decided = -1
	}
	if decided >= 0 && !m.tailPure(args, decided) {
		return unknown()
	}
	switch {
	case k < len(args) && decided >= 0:
		return orRaise(!isAnd)
	case k < len(args):
		return raise()
	case decided >= 0:
		return val(!isAnd)
	}
	return val(isAnd)
}

// not: "Exactly one argument is expected and it must be a boolean."
func not(m *M, args []any, e env) Out {
	if len(args) != 1 {
		return raise()
	}
	v, raised, ok := m.eval(args[0], e).operand()
	if !ok {
		return unknown()
	}
	if b, is := v.(bool); is && !raised {
		return val(!b)
	}
	return raise()
}

// cond: "All arguments must be array of two elements. The first element must
// evaluate to a boolean and the second can be any value. The value of the
// first true first argument is returned. If none match nil is returned."
func cond(m *M, args []any, e env) Out {
	malformed := func(a any) bool { l, ok := a.([]any); return !ok || len(l) != 2 }
	restPure := func(i int) bool {
		for _, a := range args[i:] {
			if l, ok := a.([]any); ok {
				for _, x := range l {
					if !m.pure(x) {
						return false
					}
				}
			}
		}
		return true
	}
	canRaise := false
	for _, a := range args {
		if _, _, isCall := m.isCall(a); isCall {
			return unknown() // a clause that spells a function call: not described
		}
		if malformed(a) {
			canRaise = true // checking every clause up front is a fair reading
		}
	}
	if canRaise && !restPure(0) {
		return unknown()
	}
	for i, a := range args {
		if malformed(a) {
			return raise()
		}
		l := a.([]any)
		v, raised, ok := m.eval(l[0], e).operand()
		if !ok {
			return unknown()
		}
		if raised {
			return raise()
		}
		b, isBool := v.(bool)
		if !isBool {
			// "must evaluate to a boolean": raising and treating it as not
			// true are both fair
			canRaise = true
			if !restPure(i) {
				return unknown()
			}
			continue
		}
		if !b {
			continue
		}
		o := m.eval(l[1], e)
		if !o.Unknown && canRaise {
			o.CanRaise = true
		}
		return o
	}
	if canRaise {
		return orRaise(nil)
	}
	return val(nil)
}

// pathArg reads the "must be a path" first argument of get/set/del.
func (m *M) pathArg(a any, e env, callOK bool) (p Path, o *Out) {
	if _, _, isCall := m.isCall(a); isCall {
		if !callOK {
			// del/delall: "it must be a path"; whether a call that forms a path
			// counts is not said, and the readings differ in side effects
			u := unknown()
			return p, &u
		}
		v, raised, ok := m.eval(a, e).operand()
		switch {
		case !ok:
			u := unknown()
			return p, &u
		case raised:
			r := raise()
			return p, &r
		}
		if pp, is := v.(Path); is {
			return pp, nil
		}
		if _, is := v.(string); is {
			u := unknown() // a string might be parsed as a path
			return p, &u
		}
		r := raise()
		return p, &r
	}
	if s, is := a.(string); is {
		if pp, ok := ParsePath(s); ok {
			return pp, nil
		}
		u := unknown() // "src.a", "$ x": may or may not count as a path
		return p, &u
	}
	r := raise()
	return p, &r
}

// get/getall: "The required first argument must be a path and the option
// second argument is the data to apply the path to."
func get(m *M, args []any, e env, allMatches bool) Out {
	if len(args) < 1 || len(args) > 2 {
		return raise()
	}
	p, stop := m.pathArg(args[0], e, true)
	if stop != nil {
		return *stop
	}
	var data any
	if len(args) == 2 {
		v, raised, ok := m.eval(args[1], e).single()
		if !ok {
			return unknown()
		}
		if raised {
			return raise()
		}
		if _, u := v.(unspecified); u {
			return unknown()
		}
		data = v
	}
	if m.blind(p, e, len(args) == 2) {
		return unknown()
	}
	l, ok := all(m.base(p, e, data, len(args) == 2), p.Frags)
	if !ok {
		return unknown()
	}
	if allMatches {
		if len(l) == 0 {
			return vals([]any{}, nil)
		}
		return val(l)
	}
	if len(l) == 0 {
		return val(nil)
	}
	return val(l[0])
}

func isContainer(v any) bool {
	switch v.(type) {
	case []any, map[string]any:
		return true
	}
	return false
}

// assign prepares "store v at frags under base". ok=false: jp might do
// something asmref does not model. Child chains that do not exist yet are
// created as maps; an existing member/element is overwritten.
func assign(base any, frags []Frag, v any, allMatches bool) (apply func(), ok bool) {
	f := frags[0]
	if len(frags) == 1 {
		switch f.Kind {
		case 'c':
			if mp, is := base.(map[string]any); is {
				return func() { mp[f.Key] = v }, true
			}
		case 'n':
			if l, is := base.([]any); is {
				if j, in := index(l, f.Idx); in {
					return func() { l[j] = v }, true
				}
			}
		default:
			switch t := base.(type) {
			case []any:
				if len(t) > 0 {
					return func() {
						for j := range t {
							if t[j] = v; !allMatches {
								break
							}
						}
					}, true
				}
			case map[string]any:
				if allMatches && len(t) > 0 {
					return func() {
						for k := range t {
							t[k] = v
						}
					}, true
				}
			}
		}
		return nil, false
	}
	switch f.Kind {
	case 'c':
		mp, is := base.(map[string]any)
		if !is {
			return nil, false
		}
		next, has := mp[f.Key]
		if !has {
			for _, g := range frags[1:] {
				if g.Kind != 'c' {
					return nil, false
				}
			}
			return func() {
				x := v
				for i := len(frags) - 1; i >= 1; i-- {
					x = map[string]any{frags[i].Key: x}
				}
				mp[f.Key] = x
			}, true
		}
		if next == nil {
			return nil, false
		}
		return assign(next, frags[1:], v, allMatches)
	case 'n':
		if l, is := base.([]any); is {
			if j, in := index(l, f.Idx); in && l[j] != nil {
				return assign(l[j], frags[1:], v, allMatches)
			}
		}
	}
	return nil, false
}

// set/setall: "the first must be a path and the second argument is evaluate
// to a value and inserted". What the call returns is not described.
func set(m *M, args []any, e env, allMatches bool) Out {
	if len(args) != 2 {
		return raise()
	}
	p, stop := m.pathArg(args[0], e, true)
	if stop != nil {
		return *stop
	}
	v, raised, ok := m.eval(args[1], e).single()
	if !ok {
		return unknown()
	}
	if raised {
		return raise()
	}
	if _, u := v.(unspecified); u {
		return unknown()
	}
	if _, isPath := v.(Path); isPath {
		return unknown()
	}
	if m.tainted || len(p.Frags) == 0 || m.blind(p, e, false) {
		return unknown()
	}
	apply, ok := assign(m.base(p, e, nil, false), p.Frags, v, allMatches)
	if !ok {
		return unknown()
	}
	apply()
	if isContainer(v) {
		m.tainted = true // the stored container may be shared with its origin
	}
	return val(Unspecified)
}

// del/delall: "Exactly one argument is required and it must be a path ...
// The local (@) value is returned." Only the removal of an object member is
// modelled (array elements: nil-in-place and removal are both defensible).
func del(m *M, args []any, e env, allMatches bool) Out {
	if len(args) != 1 {
		return raise()
	}
	p, stop := m.pathArg(args[0], e, false)
	if stop != nil {
		return *stop
	}
	if m.tainted || len(p.Frags) == 0 || m.blind(p, e, false) {
		return unknown()
	}
	cur := m.base(p, e, nil, false)
	last := len(p.Frags) - 1
	for _, f := range p.Frags[:last] {
		switch f.Kind {
		case 'c':
			mp, is := cur.(map[string]any)
			if !is {
				return orRaise(e.local)
			}
			next, has := mp[f.Key]
			if !has {
				return orRaise(e.local)
			}
			cur = next
		case 'n':
			l, is := cur.([]any)
			if !is {
				return orRaise(e.local)
			}
			j, in := index(l, f.Idx)
			if !in {
				return orRaise(e.local)
			}
			cur = l[j]
		default:
			return unknown()
		}
	}
	f := p.Frags[last]
	if f.Kind != 'c' {
		return unknown()
	}
	mp, is := cur.(map[string]any)
	if !is {
		return orRaise(e.local)
	}
	if _, has := mp[f.Key]; !has {
		return orRaise(e.local)
	}
	delete(mp, f.Key)
	return val(e.local)
}

// asm: "Processes all arguments in order using the return of each as input
// for the next."
func asmFn(m *M, args []any, e env) Out {
	if len(args) == 0 {
		return vals(e.local, nil)
	}
	cur := e
	var last Out
	for i, a := range args {
		last = m.eval(a, cur)
		v, raised, ok := last.single()
		if !ok {
			if i == len(args)-1 && !last.Unknown {
				return last
			}
			return unknown()
		}
		if raised {
			return raise()
		}
		cur = env{local: v, isRoot: false}
		if mp, is := v.(map[string]any); is && sameMap(mp, m.Root) {
			cur.isRoot = true
		}
	}
	return last
}

// list: "Creates a list from all the argument and return that list."
func list(m *M, args []any, e env) Out {
	vs, stop := m.evalAll(args, e)
	if stop != nil {
		return *stop
	}
	if vs == nil {
		vs = []any{}
	}
	return val(vs)
}

// quote: "Does not evaluate arguments. One argument is expected. Null is
// returned if no arguments are given while any arguments other than the
// first are ignored."
func quote(m *M, args []any, e env) Out {
	if len(args) == 0 {
		return val(nil)
	}
	return val(args[0])
}

// at/root: "Forms a path starting with @ [sic, for root too]. The remaining
// string arguments are joined with a '.' and parsed".
func mkPath(m *M, args []any, e env, at bool) Out {
	vs, stop := m.evalAll(args, e)
	if stop != nil {
		return *stop
	}
	var parts []string
	for _, v := range vs {
		s, ok := v.(string)
		if !ok {
			return raise()
		}
		parts = append(parts, s)
	}
	if len(parts) == 0 {
		return unknown()
	}
	fr, ok := parseFrags(strings.Join(parts, "."), true)
	if !ok {
		return unknown()
	}
	if !at && !e.isRoot {
		return unknown() // the description of root says "@": both heads are defensible
	}
	return val(Path{At: at, Frags: fr})
}

// sameMap reports whether a and b are the same map object.
func sameMap(a, b map[string]any) bool {
	if a == nil || b == nil {
		return false
	}
	const probe = "\x00asmref-probe"
	a[probe] = true
	_, has := b[probe]
	delete(a, probe)
	return has
}

// EvalArg evaluates one argument (call, path or literal) at the top level
// (local value = root). Used by the check to name argument kinds.
func (m *M) EvalArg(a any) Out {
	return m.eval(a, env{local: m.Root, isRoot: true})
}

// RunLocal evaluates one call with @ bound to local instead of to the root, as
// the body of an iteration or a step after an asm is evaluated. local is
// mutated by set/del on @-paths.
func (m *M) RunLocal(call []any, local any) Out {
	name, _ := call[0].(string)
	if name == "" || !m.Fns[name] {
		return unknown()
	}
	o := m.call(name, call[1:], env{local: local})
	if o.Unknown {
		m.RootUnknown = true
	}
	return o
}

// IsCall reports whether a is a list headed by a known function name.
func (m *M) IsCall(a any) bool {
	_, _, ok := m.isCall(a)
	return ok
}

// Single returns the only outcome of o, if it has exactly one.
func (o Out) Single() (v any, raised, ok bool) { return o.single() }
