package asmref

import (
	"encoding/json"
	"fmt"
	"reflect"
	"sort"
	"strings"
	"testing"
)

// conv turns json.Number into int64 (no fraction/exponent) or float64.
func conv(v any) any {
	switch t := v.(type) {
	case json.Number:
		s := t.String()
		if !strings.ContainsAny(s, ".eE") {
			i, _ := t.Int64()
			return i
		}
		f, _ := t.Float64()
		return f
	case []any:
		for i := range t {
			t[i] = conv(t[i])
		}
	case map[string]any:
		for k := range t {
			t[k] = conv(t[k])
		}
	}
	return v
}

func parse(t *testing.T, js string) any {
	t.Helper()
	d := json.NewDecoder(strings.NewReader(js))
	d.UseNumber()
	var v any
	if err := d.Decode(&v); err != nil {
		t.Fatalf("bad json %s: %v", js, err)
	}
	return conv(v)
}

var fns = map[string]bool{"toupper": true, "each": true, "size": true}

func init() {
	for k := range table {
		fns[k] = true
	}
}

func show(o Out) string {
	if o.Unknown {
		return "unknown"
	}
	var parts []string
	for _, v := range o.Vals {
		switch t := v.(type) {
		case Path:
			parts = append(parts, "path:"+t.String())
		case unspecified:
			parts = append(parts, "unspecified")
		default:
			b, _ := json.Marshal(v)
			parts = append(parts, string(b))
		}
	}
	sort.Strings(parts)
	// dedupe
	var d []string
	for i, p := range parts {
		if i == 0 || parts[i-1] != p {
			d = append(d, p)
		}
	}
	s := strings.Join(d, " | ")
	if o.CanRaise {
		if s == "" {
			return "raise"
		}
		s += " | raise"
	}
	return s
}

const rich = `{"src":{"a":1,"b":true,"s":"x","f":2.5,"n":null,"list":[3,1,2],"map":{"k":"v"}}}`

func TestOutcomes(t *testing.T) {
	cases := []struct{ plan, want string }{
		// arithmetic
		{`["sum",1,2,3]`, `6`},
		{`["+",1,2.5]`, `3.5`},
		{`["sum",1,"a"]`, `"1a"`},
		{`["sum",1,2,"a"]`, `"12a" | "3a"`},
		{`["sum","a",1,2]`, `"a12"`},
		{`["sum",2.5,"a"]`, `"2.5a"`},
		{`["sum",1,null]`, `raise`},
		{`["sum",true]`, `raise`},
		{`["sum",[1]]`, `raise`},
		{`["sum"]`, `unknown`},
		{`["sum","$.src.a",10]`, `11`},
		{`["sum","$.src.missing",10]`, `raise`},
		{`["sum",["sum",1,2],["product",2,2]]`, `7`},
		{`["dif",10,3,2]`, `5`},
		{`["-",10,2.5]`, `7.5`},
		{`["dif",5]`, `-5 | 5`},
		{`["dif",5,"a"]`, `raise`},
		{`["product",2,3,4]`, `24`},
		{`["*",2,0.5]`, `1`},
		{`["product"]`, `unknown`},
		{`["product",2,"x"]`, `raise`},
		{`["quotient",8,2,2]`, `2`},
		{`["quotient",7,2]`, `3 | 3.5`},
		{`["/",-7,2]`, `-3 | -3.5 | -4`},
		{`["/",7,2,2.0]`, `1.5 | 1.75`},
		{`["/",1,0]`, `raise`},
		{`["/",1.5,0]`, `raise`},
		{`["/",1,0.0]`, `raise`},
		{`["/",0,5]`, `0`},
		{`["/",5,true]`, `raise`},
		{`["/",5]`, `unknown`},
		{`["mod",7,3]`, `1`},
		{`["mod",-7,3]`, `-1 | 2`},
		{`["mod",7,-3]`, `-2 | 1`},
		{`["mod",7]`, `raise`},
		{`["mod"]`, `raise`},
		{`["mod",7,3,1]`, `1 | raise`},
		{`["mod",7,2.5]`, `raise`},
		{`["mod",7,2.0]`, `unknown`},
		{`["mod",7,0]`, `unknown`},
		{`["mod","a",2]`, `raise`},
		// comparison
		{`["eq",1,1,1]`, `true`},
		{`["eq",1,1,2]`, `false`},
		{`["==",1,1.0]`, `false | true`},
		{`["equal",1,1.5]`, `false`},
		{`["eq","a","a"]`, `true`},
		{`["eq","a",1]`, `false`},
		{`["eq",null,null]`, `true`},
		{`["eq",null,false]`, `false`},
		{`["eq",[1,[2]],[1,[2]]]`, `true`},
		{`["eq",[1,2],[1,3]]`, `false`},
		{`["eq",{"a":1},{"a":1}]`, `true`},
		{`["eq",{"a":1},{"b":1}]`, `false`},
		{`["eq"]`, `true | raise`},
		{`["eq",5]`, `true | raise`},
		{`["neq",1,2]`, `true`},
		{`["!=",1,1]`, `false`},
		{`["neq",1,1,2]`, `true`},
		{`["neq"]`, `false | raise`},
		{`["eq",1,2,["quotient",1,0]]`, `false | raise`},
		{`["eq",1,1,["quotient",1,0]]`, `raise`},
		{`["eq",1,2,["set","$.asm",1]]`, `unknown`},
		{`["eq","$.src.a",1]`, `true`},
		{`["lt",1,2,3]`, `true`},
		{`["lt",1,3,2]`, `false`},
		{`["<",2,1,3]`, `false`},
		{`["lt",1,1]`, `false`},
		{`["lte",1,1,2]`, `true`},
		{`["<=",1,2,1]`, `false`},
		{`["gt",3,2,1]`, `true`},
		{`["gt",3,1,2]`, `false`},
		{`[">=",3,3,1.5]`, `true`},
		{`["gte",1,2]`, `false`},
		{`["lt","a","b","c"]`, `true`},
		{`["lt","b","a"]`, `false`},
		{`["lt",1,"a"]`, `false | true | raise`},
		{`["lt",true,false]`, `false | true | raise`},
		{`["lt",null,1]`, `false | true | raise`},
		{`["lt"]`, `true | raise`},
		{`["lt",1]`, `true | raise`},
		{`["lt","$.src.a",5]`, `true`},
		{`["lt",["sum",1,2],5]`, `true`},
		{`["gt","$.src.f","$.src.a"]`, `true`},
		{`["lt",2,1,"a"]`, `false | true | raise`},
		{`["lt",2,1,["quotient",1,0]]`, `false | raise`},
		{`["lt",1,2,["quotient",1,0]]`, `raise`},
		// logic
		{`["and",true,true]`, `true`},
		{`["and",true,false]`, `false`},
		{`["and",true,null]`, `false`},
		{`["and",false,5]`, `false | raise`},
		{`["and",true,5]`, `raise`},
		{`["and",5,false]`, `raise`},
		{`["and"]`, `true | raise`},
		{`["or",false,true]`, `true`},
		{`["or",false,null]`, `false`},
		{`["or",true,"x"]`, `true | raise`},
		{`["or",false,"x"]`, `raise`},
		{`["or"]`, `false | raise`},
		{`["and",false,["set","$.asm",1]]`, `unknown`},
		{`["not",true]`, `false`},
		{`["not",false]`, `true`},
		{`["not",null]`, `raise`},
		{`["not",1]`, `raise`},
		{`["not"]`, `raise`},
		{`["not",true,false]`, `raise`},
		{`["not",["lt",1,2]]`, `false`},
		// conditional
		{`["cond",[false,1],[true,2]]`, `2`},
		{`["cond",[false,1]]`, `null`},
		{`["cond"]`, `null`},
		{`["cond",[true,[1,2]]]`, `[1,2]`},
		{`["cond",[true,{"a":1}]]`, `{"a":1}`},
		{`["cond",[true,"$.src.s"]]`, `"x"`},
		{`["cond",["$.src.b",["sum",1,2]]]`, `3`},
		{`["cond",[["lt",1,2],"yes"],[true,"no"]]`, `"yes"`},
		{`["cond",5]`, `raise`},
		{`["cond",[true]]`, `raise`},
		{`["cond",[true,1,2]]`, `raise`},
		{`["cond",[true,1],5]`, `1 | raise`},
		{`["cond",[5,1],[true,2]]`, `2 | raise`},
		{`["cond",[null,1]]`, `null | raise`},
		{`["cond",["not",false]]`, `unknown`},
		{`["cond",[true,["toupper","a"]]]`, `unknown`},
		// get / getall
		{`["get","$.src.a"]`, `1`},
		{`["get","@.src.list[1]"]`, `1`},
		{`["get","$.src.list[-1]"]`, `2`},
		{`["get","$.src.missing"]`, `null`},
		{`["get","$.src.list[*]"]`, `3`},
		{`["get","$.a",{"a":7}]`, `7`},
		{`["get","@.a",{"a":7}]`, `7`},
		{`["get","$.src.a",5]`, `null`},
		{`["get"]`, `raise`},
		{`["get","$.src.a",1,2]`, `raise`},
		{`["get",5]`, `raise`},
		{`["get",null]`, `raise`},
		{`["get",[1]]`, `raise`},
		{`["get","src.a"]`, `unknown`},
		{`["get","$ x"]`, `unknown`},
		{`["get",["root","src","a"]]`, `1`},
		{`["get",["at","src","list[0]"]]`, `3`},
		{`["get",["sum",1,2]]`, `raise`},
		{`["get",["quote","$.src.a"]]`, `unknown`},
		{`["getall","$.src.list[*]"]`, `[3,1,2]`},
		{`["getall","$.src.a"]`, `[1]`},
		{`["getall","$.src.missing"]`, `[] | null`},
		{`["getall","$.src.*"]`, `unknown`},
		{`["root","src","a"]`, `path:$.src.a`},
		{`["at","x"]`, `path:@.x`},
		{`["at",5]`, `raise`},
		{`["at"]`, `unknown`},
		// asm, list, quote
		{`["asm",5,["sum","@",1]]`, `6`},
		{`[["sum",1,2]]`, `3`},
		{`["foo",1]`, `1`},
		{`["asm"]`, `null | {"src":{"a":1,"b":true,"f":2.5,"list":[3,1,2],"map":{"k":"v"},"n":null,"s":"x"}}`},
		{`["list",1,"$.src.a",["sum",1,1]]`, `[1,1,2]`},
		{`["list"]`, `[]`},
		{`["quote","$.src.a"]`, `"$.src.a"`},
		{`["quote"]`, `null`},
		{`["quote",["sum",1,2],5]`, `["sum",1,2]`},
		{`["list",["$.src.a"]]`, `unknown`},
		// unmodelled
		{`["toupper","a"]`, `unknown`},
		{`["sum",1,["toupper","a"]]`, `unknown`},
		{`["each","$.src.list",["set","@.asm","@.src"]]`, `unknown`},
		{`["asm",["set","$.asm.x",1],["get","@.src.a"]]`, `unknown`},
		{`["asm",["set","$.asm.x",1],["get","$.asm.x"]]`, `1`},
		{`["asm",["del","$.src.a"],["get","@.src.b"]]`, `true`},
		// what set returns is not described: nothing may be concluded from it
		{`["asm",true,["not",["set","$.asm.x",1]]]`, `unknown`},
		{`["not",["set","$.asm.x",1]]`, `unknown`},
		{`["asm",["at","src"],["get",["set","$.asm.x",1]]]`, `unknown`},
		{`["cond",[["set","$.asm.x",1],1]]`, `unknown`},
		{`["and",["set","$.asm.x",1]]`, `unknown`},
		{`["sum",1,["set","$.asm.x",1]]`, `unknown`},
	}
	for _, c := range cases {
		root := parse(t, rich).(map[string]any)
		m := &M{Fns: fns, Root: root}
		got := show(m.Run(parse(t, c.plan).([]any)))
		if got != c.want {
			t.Errorf("%s: got %s want %s", c.plan, got, c.want)
		}
	}
}

func TestEffects(t *testing.T) {
	cases := []struct{ plan, out, root string }{
		{`["set","$.asm.x.y",1]`, `unspecified`, `{"asm":{"x":{"y":1}},"src":{"a":1,"l":[1,2],"m":{"k":"v"},"n":null}}`},
		{`["set","$.src.a",["sum","$.src.a",1]]`, `unspecified`, `{"src":{"a":2,"l":[1,2],"m":{"k":"v"},"n":null}}`},
		{`["set","@.src.l[-1]",9]`, `unspecified`, `{"src":{"a":1,"l":[1,9],"m":{"k":"v"},"n":null}}`},
		{`["set","$.src.l[*]",0]`, `unspecified`, `{"src":{"a":1,"l":[0,2],"m":{"k":"v"},"n":null}}`},
		{`["setall","$.src.l[*]",0]`, `unspecified`, `{"src":{"a":1,"l":[0,0],"m":{"k":"v"},"n":null}}`},
		{`["setall","$.src.m.*",0]`, `unspecified`, `{"src":{"a":1,"l":[1,2],"m":{"k":0},"n":null}}`},
		{`["set",["root","asm"],"v"]`, `unspecified`, `{"asm":"v","src":{"a":1,"l":[1,2],"m":{"k":"v"},"n":null}}`},
		{`["set","$.src.l[5]",0]`, `unknown`, ``},
		{`["set","$.src.a.b",0]`, `unknown`, ``},
		{`["set","$.src.n.b",0]`, `unknown`, ``},
		{`["set","$",0]`, `unknown`, ``},
		{`["set","$.asm"]`, `raise`, ``},
		{`["set","$.asm",1,2]`, `raise`, ``},
		{`["set",5,1]`, `raise`, ``},
		{`["set","$.asm",["quotient",1,0]]`, `raise`, ``},
		{`["del","$.src.a"]`, `{"src":{"l":[1,2],"m":{"k":"v"},"n":null}}`, `{"src":{"l":[1,2],"m":{"k":"v"},"n":null}}`},
		{`["delall","$.src.m.k"]`, `{"src":{"a":1,"l":[1,2],"m":{},"n":null}}`, `{"src":{"a":1,"l":[1,2],"m":{},"n":null}}`},
		{`["del","$.src.zz"]`, `raise | {"src":{"a":1,"l":[1,2],"m":{"k":"v"},"n":null}}`, `{"src":{"a":1,"l":[1,2],"m":{"k":"v"},"n":null}}`},
		{`["del","$.src.l[0]"]`, `unknown`, ``},
		{`["del"]`, `raise`, ``},
		{`["del",5]`, `raise`, ``},
		{`["del",["root","src","a"]]`, `unknown`, ``},
		{`["asm",["set","$.asm","$.src.m"],["set","$.asm.k",1]]`, `unknown`, ``},
		{`["asm",["set","$.asm.a",1],["set","$.asm.b",2]]`, `unspecified`, `{"asm":{"a":1,"b":2},"src":{"a":1,"l":[1,2],"m":{"k":"v"},"n":null}}`},
		{`[["set","$.asm","$.src.l"]]`, `unspecified`, `{"asm":[1,2],"src":{"a":1,"l":[1,2],"m":{"k":"v"},"n":null}}`},
	}
	for _, c := range cases {
		root := parse(t, `{"src":{"a":1,"l":[1,2],"m":{"k":"v"},"n":null}}`).(map[string]any)
		m := &M{Fns: fns, Root: root}
		o := m.Run(parse(t, c.plan).([]any))
		got := show(o)
		if strings.HasPrefix(c.out, "raise | ") { // order of show is sorted: normalise expectation
			c.out = strings.TrimPrefix(c.out, "raise | ") + " | raise"
		}
		if got != c.out {
			t.Errorf("%s: outcome %s want %s", c.plan, got, c.out)
			continue
		}
		if c.root == "" {
			continue
		}
		if m.RootUnknown {
			t.Errorf("%s: root unexpectedly unknown", c.plan)
		}
		want := parse(t, c.root)
		if !reflect.DeepEqual(want, any(root)) {
			b, _ := json.Marshal(root)
			t.Errorf("%s: root %s want %s", c.plan, b, c.root)
		}
	}
}

func TestParsePath(t *testing.T) {
	for s, want := range map[string]string{
		"$": "$", "@": "@", "$.a.b": "$.a.b", "@.a[0][-1]": "@.a[0][-1]", "$.a[*]": "$.a[*]", "$.a.*": "$.a[*]",
		"$ x": "", "$a": "", "@x": "", "$.": "", "$[": "", "$..a": "", "$['a']": "", "x": "", "": "", "$$": "",
	} {
		p, ok := ParsePath(s)
		got := ""
		if ok {
			got = p.String()
		}
		if got != want {
			t.Errorf("ParsePath(%q) = %q want %q", s, got, want)
		}
	}
}

func TestNoPanic(t *testing.T) {
	// every modelled function, arities 0..3, a few operand kinds: the reference itself must be total
	ops := []any{nil, true, int64(0), int64(-2), 2.5, "a", "$.src.a", "@", "$ x", []any{}, []any{int64(1)}, map[string]any{"a": int64(1)}, []any{"sum", int64(1)}, []any{"set", "$.asm", int64(1)}, []any{true, int64(1)}}
	for name := range table {
		for n := 0; n <= 3; n++ {
			idx := make([]int, n)
			for {
				plan := []any{name}
				for _, i := range idx {
					plan = append(plan, ops[i])
				}
				func() {
					defer func() {
						if r := recover(); r != nil {
							t.Fatalf("%v panicked: %v", fmt.Sprint(plan), r)
						}
					}()
					root := map[string]any{"src": map[string]any{"a": int64(1)}}
					(&M{Fns: fns, Root: root}).Run(plan)
				}()
				k := n - 1
				for k >= 0 {
					idx[k]++
					if idx[k] < len(ops) {
						break
					}
					idx[k] = 0
					k--
				}
				if k < 0 {
					break
				}
			}
		}
	}
}
