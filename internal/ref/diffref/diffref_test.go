package diffref

import (
	"fmt"
	"sort"
	"strings"
	"testing"
	"time"
)

type M = map[string]any
type A = []any

func locs(ds []Delta) string {
	var s []string
	for _, d := range ds {
		t := fmt.Sprint(d.Loc)
		if d.Open {
			t += "?"
		}
		if d.Tail {
			t += fmt.Sprintf("tail%d", d.TailFrom)
		}
		s = append(s, t)
	}
	sort.Strings(s)
	return strings.Join(s, " ")
}

func TestScalar(t *testing.T) {
	now := time.Unix(1700000000, 0)
	for i, c := range []struct {
		a, b any
		want Rel
	}{
		{nil, nil, Equal},
		{nil, false, Differ},
		{true, true, Equal},
		{true, false, Differ},
		{int64(1), int8(1), Equal},
		{uint16(7), int(7), Equal},
		{int64(1), int64(2), Differ},
		{float32(1.5), float64(1.5), Equal},
		{float32(0.1), float64(0.1), Differ}, // different values
		{int64(1), float64(1), Open},
		{float64(2), uint8(2), Open},
		{int64(1), float64(1.5), Differ},
		{int64(9007199254740993), float64(9007199254740992), Differ},
		{uint64(1 << 63), int64(-1 << 63), Differ},
		{uint64(18446744073709551615), int64(-1), Differ},
		{"a", "a", Equal},
		{"a", "b", Differ},
		{"1", int64(1), Differ},
		{int64(1), "1", Differ},
		{int64(0), nil, Differ},
		{false, int64(0), Differ},
		{now, now, Equal},
		{now, now.Add(time.Hour), Differ},
		{now, now.Add(time.Microsecond), Open},
		{now, "x", Differ},
	} {
		if got := Scalar(c.a, c.b); got != c.want {
			t.Errorf("%d: Scalar(%#v,%#v)=%v want %v", i, c.a, c.b, got, c.want)
		}
		if got := Scalar(c.b, c.a); got != c.want {
			t.Errorf("%d: Scalar(%#v,%#v)=%v want %v (swapped)", i, c.b, c.a, got, c.want)
		}
	}
}

func TestDeltas(t *testing.T) {
	for i, c := range []struct {
		a, b any
		want string
	}{
		{int64(1), int8(1), ""},
		{int64(1), "x", "[]"},
		{A{}, M{}, "[]"},
		{A{}, nil, "[]"},
		{nil, M{}, "[]"},
		{M{"a": nil}, M{}, ""},
		{M{}, M{"a": nil, "b": M{"c": nil}}, "[b]"}, // {} is not null
		{M{"a": int64(1)}, M{}, "[a]"},
		{M{"a": int64(1), "b": int64(2)}, M{"a": int64(1), "b": int64(3), "c": true}, "[b] [c]"},
		{M{"a": M{"x": "s"}}, M{"a": M{"x": "t"}}, "[a x]"},
		{M{"a": M{"x": "s"}}, M{"a": int64(5)}, "[a]"},
		{A{int64(1), int64(2), int64(3), int64(4)}, A{int64(1), int64(9)}, "[1] [2]tail2 [3]tail2"},
		{A{int64(1)}, A{int64(1), nil}, "[1]tail1"}, // arrays: null is not absent
		{A{M{"x": int64(1)}, M{"y": int64(1)}}, A{M{"x": int64(2)}, M{"y": int64(2)}}, "[0 x] [1 y]"},
		{A{int64(1)}, A{float64(1)}, "[0]?"},
		{A{A{}}, A{A{A{}}}, "[0 0]tail0"},
	} {
		if got := locs(Deltas(c.a, c.b)); got != c.want {
			t.Errorf("%d: Deltas(%v,%v)=%q want %q", i, c.a, c.b, got, c.want)
		}
		// symmetric
		if got := locs(Deltas(c.b, c.a)); got != c.want {
			t.Errorf("%d: swapped Deltas=%q want %q", i, got, c.want)
		}
	}
}

func TestUnderCovers(t *testing.T) {
	for i, c := range []struct {
		ign, loc []any
		want     bool
	}{
		{A{"a"}, A{"a"}, true},
		{A{"a"}, A{"a", 1}, true},
		{A{"a", 1}, A{"a"}, false},
		{A{nil}, A{"a"}, true},
		{A{nil}, A{3, "x"}, true},
		{A{nil, "x"}, A{3, "x"}, true},
		{A{nil, "y"}, A{3, "x"}, false},
		{A{0, "x"}, A{1, "x"}, false},
		{A{"0"}, A{0}, false},
		{A{}, A{"a"}, false},
		{A{nil}, A{}, false},
	} {
		if got := Under(c.ign, c.loc); got != c.want {
			t.Errorf("%d: Under(%v,%v)=%v", i, c.ign, c.loc, got)
		}
	}
	tail := Delta{Loc: A{"a", 3}, Tail: true, TailFrom: 2}
	for i, c := range []struct {
		p    []any
		d    Delta
		want bool
	}{
		{A{"a", 3}, tail, true},
		{A{"a", 2}, tail, true}, // first index past the shorter array
		{A{"a"}, tail, true},
		{A{}, tail, true},
		{A{"a", 1}, tail, false}, // inside the common part
		{A{"a", 4}, tail, false},
		{A{"b", 2}, tail, false},
		{A{"a", 2}, Delta{Loc: A{"a", 3}}, false}, // not a tail element: exact prefix only
		{A{"a", 3, "x"}, Delta{Loc: A{"a", 3}}, false},
	} {
		if got := Covers(c.p, c.d); got != c.want {
			t.Errorf("%d: Covers(%v,%v)=%v", i, c.p, c.d, got)
		}
	}
}

func TestMatch(t *testing.T) {
	for i, c := range []struct {
		f, t any
		want Rel
	}{
		{nil, nil, Equal},
		{nil, int64(0), Differ},
		{int8(3), int64(3), Equal},
		{int64(3), float64(3), Open},
		{"a", "b", Differ},
		{M{}, M{"a": int64(1)}, Equal},
		{M{"a": int64(1)}, M{"a": int64(1), "b": true}, Equal},
		{M{"a": int64(1), "b": true}, M{"a": int64(1)}, Differ},
		{M{"a": nil}, M{}, Equal}, // explicit nil matches a missing member
		{M{"a": nil}, M{"a": false}, Differ},
		{M{"a": M{"b": "x"}}, M{"a": M{"b": "x", "c": nil}}, Equal},
		{M{"a": M{"b": "x"}}, M{"a": M{"b": "y"}}, Differ},
		{M{"a": int64(1)}, A{}, Differ},
		{M{"a": int64(1)}, nil, Differ},
		{M{}, nil, Open},
		{M{}, int64(1), Differ},
		{A{int64(1)}, A{int64(1)}, Equal},
		{A{int64(1)}, A{int64(2)}, Differ},
		{A{int64(1)}, A{int64(1), int64(2)}, Open},
		{A{int64(2)}, A{int64(1), int64(2)}, Differ},
		{A{int64(1), int64(2)}, A{int64(1)}, Differ},
		{A{int64(1), nil}, A{int64(1)}, Open},
		{A{}, M{}, Differ},
		{int64(1), A{}, Differ},
	} {
		if got := Match(c.f, c.t); got != c.want {
			t.Errorf("%d: Match(%v,%v)=%v want %v", i, c.f, c.t, got, c.want)
		}
	}
}
