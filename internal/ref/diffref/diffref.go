// Package diffref is the reference for C19: which locations of two value
// trees differ under "equal up to numeric width and null-versus-absent object
// members", when an ignore path covers a location, and when a fingerprint is
// matched by a target. Plain recursion over []any / map[string]any / scalars;
// no code shared with ojg.
package diffref

import (
	"fmt"
	"math"
	"math/big"
	"sort"
	"time"
)

// Rel is the relation of two scalars (or the verdict of a match).
type Rel int

const (
	// Equal: equivalent under every reading of the statement.
	Equal Rel = iota
	// Differ: different under every reading.
	Differ
	// Open: the statement does not decide (an integer kind against a float
	// kind holding the same mathematical value; instants closer than the
	// documented time tolerance); either answer is accepted.
	Open
)

func (r Rel) String() string { return [...]string{"equal", "differ", "open"}[r] }

// Delta is one location where a and b diverge. Loc holds string keys and int
// indexes from the root (empty = the root itself).
type Delta struct {
	Loc []any
	// Open marks a divergence that exists under one reading only.
	Open bool
	// Tail marks an element past the end of the shorter of two arrays;
	// TailFrom is the length of the shorter array.
	Tail     bool
	TailFrom int
}

type numClass int

const (
	notNum numClass = iota
	intNum
	floatNum
)

// num returns the class and the exact value of a Go number.
func num(v any) (numClass, *big.Float, bool) {
	f := new(big.Float).SetPrec(200)
	switch t := v.(type) {
	case int:
		return intNum, f.SetInt64(int64(t)), false
	case int8:
		return intNum, f.SetInt64(int64(t)), false
	case int16:
		return intNum, f.SetInt64(int64(t)), false
	case int32:
		return intNum, f.SetInt64(int64(t)), false
	case int64:
		return intNum, f.SetInt64(t), false
	case uint:
		return intNum, f.SetUint64(uint64(t)), false
	case uint8:
		return intNum, f.SetUint64(uint64(t)), false
	case uint16:
		return intNum, f.SetUint64(uint64(t)), false
	case uint32:
		return intNum, f.SetUint64(uint64(t)), false
	case uint64:
		return intNum, f.SetUint64(t), false
	case float32:
		if math.IsNaN(float64(t)) || math.IsInf(float64(t), 0) {
			return floatNum, nil, true
		}
		return floatNum, f.SetFloat64(float64(t)), false
	case float64:
		if math.IsNaN(t) || math.IsInf(t, 0) {
			return floatNum, nil, true
		}
		return floatNum, f.SetFloat64(t), false
	}
	return notNum, nil, false
}

// TimeSlack is the band inside which two different instants are left open
// (ojg documents a TimeTolerance of one millisecond).
const TimeSlack = 2 * time.Millisecond

// Scalar relates two non-container values.
func Scalar(a, b any) Rel {
	ca, va, oddA := num(a)
	cb, vb, oddB := num(b)
	if ca != notNum || cb != notNum {
		if ca == notNum || cb == notNum {
			return Differ
		}
		if oddA || oddB {
			return Open // NaN and infinities are outside the statement
		}
		if va.Cmp(vb) != 0 {
			return Differ
		}
		if ca != cb {
			return Open
		}
		return Equal
	}
	switch ta := a.(type) {
	case nil:
		if b == nil {
			return Equal
		}
		return Differ
	case bool:
		if tb, ok := b.(bool); ok && ta == tb {
			return Equal
		}
		return Differ
	case string:
		if tb, ok := b.(string); ok && ta == tb {
			return Equal
		}
		return Differ
	case time.Time:
		tb, ok := b.(time.Time)
		if !ok {
			return Differ
		}
		d := ta.Sub(tb)
		if d < 0 {
			d = -d
		}
		switch {
		case d == 0:
			return Equal
		case d < TimeSlack:
			return Open
		}
		return Differ
	}
	panic(fmt.Sprintf("diffref: unsupported scalar %T", a))
}

func isContainer(v any) bool {
	switch v.(type) {
	case []any, map[string]any:
		return true
	}
	return false
}

// Deltas lists every location where a and b diverge: a scalar against a
// non-equivalent scalar, a container against a value of another kind, an
// array element with no counterpart. An object member that is absent on one
// side is read as null.
func Deltas(a, b any) []Delta {
	var out []Delta
	deltas(a, b, nil, &out)
	return out
}

func ext(loc []any, e any) []any {
	n := make([]any, len(loc)+1)
	copy(n, loc)
	n[len(loc)] = e
	return n
}

func deltas(a, b any, loc []any, out *[]Delta) {
	switch ta := a.(type) {
	case map[string]any:
		tb, ok := b.(map[string]any)
		if !ok {
			*out = append(*out, Delta{Loc: loc})
			return
		}
		keys := map[string]bool{}
		for k := range ta {
			keys[k] = true
		}
		for k := range tb {
			keys[k] = true
		}
		ks := make([]string, 0, len(keys))
		for k := range keys {
			ks = append(ks, k)
		}
		sort.Strings(ks)
		for _, k := range ks {
			deltas(ta[k], tb[k], ext(loc, k), out) // absent reads as nil
		}
		return
	case []any:
		tb, ok := b.([]any)
		if !ok {
			*out = append(*out, Delta{Loc: loc})
			return
		}
		min, max := len(ta), len(tb)
		if max < min {
			min, max = max, min
		}
		for i := 0; i < min; i++ {
			deltas(ta[i], tb[i], ext(loc, i), out)
		}
		for i := min; i < max; i++ {
			*out = append(*out, Delta{Loc: ext(loc, i), Tail: true, TailFrom: min})
		}
		return
	}
	if isContainer(b) {
		*out = append(*out, Delta{Loc: loc})
		return
	}
	switch Scalar(a, b) {
	case Differ:
		*out = append(*out, Delta{Loc: loc})
	case Open:
		*out = append(*out, Delta{Loc: loc, Open: true})
	}
}

// ElemEq compares two path elements (string, int or nil).
func ElemEq(x, y any) bool {
	switch tx := x.(type) {
	case nil:
		return y == nil
	case int:
		ty, ok := y.(int)
		return ok && tx == ty
	case string:
		ty, ok := y.(string)
		return ok && tx == ty
	}
	return false
}

// Under reports whether the ignore path ign (nil element = wildcard for a
// key or an index) covers loc: ign is non-empty, not longer than loc and
// matches it element by element.
func Under(ign []any, loc []any) bool {
	if len(ign) == 0 || len(ign) > len(loc) {
		return false
	}
	for i, e := range ign {
		if e != nil && !ElemEq(e, loc[i]) {
			return false
		}
	}
	return true
}

// Ignored reports whether any ignore path covers loc.
func Ignored(ignores [][]any, loc []any) bool {
	for _, g := range ignores {
		if Under(g, loc) {
			return true
		}
	}
	return false
}

// Covers reports whether a returned path p accounts for the divergence d:
// p is a prefix of (or equal to) d.Loc, or - the array-length tail reading -
// d is a tail element and p addresses an element of the same array at or
// after the end of the shorter array and not after d.
func Covers(p []any, d Delta) bool {
	if len(p) <= len(d.Loc) {
		ok := true
		for i, e := range p {
			if !ElemEq(e, d.Loc[i]) {
				ok = false
				break
			}
		}
		if ok {
			return true
		}
	}
	if d.Tail && len(p) == len(d.Loc) {
		n := len(p) - 1
		for i := 0; i < n; i++ {
			if !ElemEq(p[i], d.Loc[i]) {
				return false
			}
		}
		j, ok := p[n].(int)
		return ok && j >= d.TailFrom && j <= d.Loc[n].(int)
	}
	return false
}

// allNilDeep: the value consists of nulls and containers of nulls only.
func allNilDeep(v any) bool {
	switch t := v.(type) {
	case nil:
		return true
	case []any:
		for _, e := range t {
			if !allNilDeep(e) {
				return false
			}
		}
		return true
	case map[string]any:
		for _, e := range t {
			if !allNilDeep(e) {
				return false
			}
		}
		return true
	}
	return false
}

func and(x, y Rel) Rel { // Equal = matched, Differ = not matched
	if x == Differ || y == Differ {
		return Differ
	}
	if x == Open || y == Open {
		return Open
	}
	return Equal
}

// Match is the reference fingerprint match: Equal = f is matched by t,
// Differ = it is not, Open = the statement leaves it undecided (numeric
// int-versus-float, a fingerprint array that is shorter than the target
// array, a fingerprint that holds nothing but nulls against a missing
// target). A null in f matches null or a missing member.
func Match(f, t any) Rel {
	switch tf := f.(type) {
	case map[string]any:
		tt, ok := t.(map[string]any)
		if !ok {
			if t == nil && allNilDeep(f) {
				return Open
			}
			return Differ
		}
		r := Equal
		for k, v := range tf {
			r = and(r, Match(v, tt[k]))
		}
		return r
	case []any:
		tt, ok := t.([]any)
		if !ok {
			if t == nil && allNilDeep(f) {
				return Open
			}
			return Differ
		}
		r := Equal
		for i, v := range tf {
			if i < len(tt) {
				r = and(r, Match(v, tt[i]))
			} else if allNilDeep(v) {
				r = and(r, Open)
			} else {
				r = Differ
			}
		}
		if len(tf) < len(tt) {
			r = and(r, Open)
		}
		return r
	}
	if isContainer(t) {
		return Differ
	}
	return Scalar(f, t)
}
