// Package encref is the reference encoder of C15: a naive, recursive,
// reflection based rendering of a Go value into the tree that the ojg option
// documentation (options.go) prescribes. It shares no code with ojg.
//
// Where the documentation leaves a choice the reference does not pick one: a
// member can be optional and a node can have alternatives (see Presence and
// Node.Alts), so that the oracle never demands more than what is written.
package encref

import (
	"encoding/base64"
	"reflect"
	"strconv"
	"strings"
	"time"
	"unicode"
)

// Opts are the options the reference understands (the ones C15 names).
type Opts struct {
	UseTags    bool
	KeyExact   bool
	OmitNil    bool
	OmitEmpty  bool
	NestEmbed  bool
	CreateKey  string
	FullPath   bool
	BytesAs    int // 0 string, 1 base64, 2 array (ojg.BytesAs*)
	TimeFormat string
}

// Presence says whether an object member has to be there.
type Presence byte

const (
	// Must be present.
	Must Presence = iota
	// OptAgree : the documentation allows present or absent, but it is one
	// option reading, so all encoders have to make the same choice.
	OptAgree
	// OptFree : present or absent, encoders may differ (documented divergence:
	// "maps with all empty members will not be skipped on writing but will be
	// with alt.Decompose and alter"; nil embedded pointers).
	OptFree
)

// Node is a reference tree node. Kind: n(ull) b(ool) #(number) s(tring)
// a(rray) o(bject).
type Node struct {
	Kind    byte
	B       bool
	Num     float64
	S       string
	Elems   []*Node
	Members []*Member
	// Alts are other acceptable renderings of the same value (nil slice or map
	// as null; a ",string" tag on a string field).
	Alts []*Node
}

// Member is one object member. Field is the index of the top-level struct
// field it stems from (-1 for the create key and for map members).
type Member struct {
	Key   string
	Val   *Node
	Pres  Presence
	Field int
}

var timeType = reflect.TypeOf(time.Time{})

func null() *Node           { return &Node{Kind: 'n'} }
func str(s string) *Node    { return &Node{Kind: 's', S: s} }
func num(f float64) *Node   { return &Node{Kind: '#', Num: f} }
func boolean(b bool) *Node  { return &Node{Kind: 'b', B: b} }
func array(e []*Node) *Node { return &Node{Kind: 'a', Elems: e} }

// Encode renders v (any Go value) under o.
func Encode(v any, o *Opts) *Node {
	return encode(reflect.ValueOf(v), o)
}

// EncodeValue is Encode for a reflect.Value.
func EncodeValue(v reflect.Value, o *Opts) *Node { return encode(v, o) }

func encode(v reflect.Value, o *Opts) *Node {
	if !v.IsValid() {
		return null()
	}
	if v.Type() == timeType {
		return encodeTime(v.Interface().(time.Time), o)
	}
	switch v.Kind() {
	case reflect.Ptr, reflect.Interface:
		if v.IsNil() {
			return null()
		}
		return encode(v.Elem(), o)
	case reflect.Bool:
		return boolean(v.Bool())
	case reflect.Int, reflect.Int8, reflect.Int16, reflect.Int32, reflect.Int64:
		return num(float64(v.Int()))
	case reflect.Uint, reflect.Uint8, reflect.Uint16, reflect.Uint32, reflect.Uint64:
		return num(float64(v.Uint()))
	case reflect.Float32:
		f, _ := strconv.ParseFloat(strconv.FormatFloat(v.Float(), 'g', -1, 32), 64)
		return num(f)
	case reflect.Float64:
		return num(v.Float())
	case reflect.String:
		return str(v.String())
	case reflect.Slice:
		var n *Node
		if v.Type().Elem().Kind() == reflect.Uint8 {
			n = encodeBytes(v.Bytes(), o)
		} else {
			n = encodeList(v, o)
		}
		if v.IsNil() {
			n.Alts = append(n.Alts, null())
		}
		return n
	case reflect.Array:
		return encodeList(v, o)
	case reflect.Map:
		n := encodeMap(v, o)
		if v.IsNil() {
			n.Alts = append(n.Alts, null())
		}
		return n
	case reflect.Struct:
		return encodeStruct(v, o)
	}
	return null() // chan, func, ... : not part of the explored space
}

func encodeTime(t time.Time, o *Opts) *Node {
	switch o.TimeFormat {
	case "", "nano":
		return num(float64(t.UnixNano()))
	case "second":
		return num(float64(t.UnixNano()) / 1e9)
	}
	return str(t.Format(o.TimeFormat))
}

func encodeBytes(b []byte, o *Opts) *Node {
	switch o.BytesAs {
	case 1:
		return str(base64.StdEncoding.EncodeToString(b))
	case 2:
		es := make([]*Node, len(b))
		for i, x := range b {
			es[i] = num(float64(x))
		}
		return array(es)
	}
	return str(string(b))
}

func encodeList(v reflect.Value, o *Opts) *Node {
	es := make([]*Node, v.Len())
	for i := range es {
		es[i] = encode(v.Index(i), o)
	}
	return array(es)
}

func encodeMap(v reflect.Value, o *Opts) *Node {
	n := &Node{Kind: 'o'}
	it := v.MapRange()
	for it.Next() {
		var k string
		switch it.Key().Kind() {
		case reflect.String:
			k = it.Key().String()
		case reflect.Int, reflect.Int8, reflect.Int16, reflect.Int32, reflect.Int64:
			k = strconv.FormatInt(it.Key().Int(), 10) // an integer key is written as its decimal text (encoding/json, alt.Decompose)
		case reflect.Uint, reflect.Uint8, reflect.Uint16, reflect.Uint32, reflect.Uint64:
			k = strconv.FormatUint(it.Key().Uint(), 10)
		default:
			continue // other key types are not explored
		}
		val := encode(it.Value(), o)
		pres, keep := memberPresence(it.Value(), val, o, false)
		if keep {
			n.Members = append(n.Members, &Member{Key: k, Val: val, Pres: pres, Field: -1})
		}
	}
	return n
}

// goEmpty is encoding/json's notion of empty for the omitempty tag.
func goEmpty(v reflect.Value) bool {
	switch v.Kind() {
	case reflect.Array, reflect.Map, reflect.Slice, reflect.String:
		return v.Len() == 0
	case reflect.Bool:
		return !v.Bool()
	case reflect.Int, reflect.Int8, reflect.Int16, reflect.Int32, reflect.Int64:
		return v.Int() == 0
	case reflect.Uint, reflect.Uint8, reflect.Uint16, reflect.Uint32, reflect.Uint64:
		return v.Uint() == 0
	case reflect.Float32, reflect.Float64:
		return v.Float() == 0
	case reflect.Interface, reflect.Ptr:
		return v.IsNil()
	}
	return false
}

func isNilRef(v reflect.Value) bool {
	switch v.Kind() {
	case reflect.Ptr, reflect.Interface:
		return v.IsNil() || (v.Kind() == reflect.Interface && isNilRef(v.Elem()))
	}
	return false
}

func isNilContainer(v reflect.Value) bool {
	switch v.Kind() {
	case reflect.Slice, reflect.Map:
		return v.IsNil()
	}
	return false
}

// deref follows pointers and interfaces to the value that gets written.
func deref(v reflect.Value) reflect.Value {
	for v.IsValid() && (v.Kind() == reflect.Ptr || v.Kind() == reflect.Interface) {
		if v.IsNil() {
			return reflect.Value{}
		}
		v = v.Elem()
	}
	return v
}

// emptiedObject reports whether the rendering is an object all of whose
// members may be absent (it can become {} through omission).
func emptiedObject(n *Node) bool {
	if n.Kind != 'o' {
		return false
	}
	for _, m := range n.Members {
		if m.Pres == Must {
			return false
		}
	}
	return true
}

// memberPresence applies OmitNil / OmitEmpty (the options, not the tag) to one
// member. keep=false means the member must be absent.
//
//	OmitNil   "skips the writing of nil values in an object"
//	OmitEmpty "skips the writing of empty string, slices, maps, and zero values
//	           although maps with all empty members will not be skipped on
//	           writing but will be with alt.Decompose and alter"
//
// Deliberately weak readings: a nil slice or map under OmitNil may stay (it is
// written as an empty one) or go; under OmitEmpty zero numbers, false, nil and
// anything whose written form is a zero scalar may stay or go, but every
// encoder has to choose alike; an object that only becomes empty through
// omission is the documented divergence. Inside plain maps (field=false) the
// writers do not drop zero scalars but Decompose does - that is part of the
// same documented sentence, so there the choice is free.
func memberPresence(v reflect.Value, val *Node, o *Opts, field bool) (Presence, bool) {
	pres := Must
	weaken := func(p Presence) {
		if pres < p {
			pres = p
		}
	}
	if o.OmitNil {
		switch {
		case !v.IsValid() || ((v.Kind() == reflect.Ptr || v.Kind() == reflect.Interface) && v.IsNil()):
			return Must, false
		case isNilRef(v): // a typed nil pointer inside an interface: nil or not, either reading
			weaken(OptAgree)
		case isNilContainer(v):
			weaken(OptAgree)
		}
	}
	if o.OmitEmpty {
		d := deref(v)
		direct := v.IsValid() && v.Kind() != reflect.Ptr && v.Kind() != reflect.Interface
		switch {
		case direct && (v.Kind() == reflect.String || v.Kind() == reflect.Slice || v.Kind() == reflect.Map) && v.Len() == 0:
			return Must, false
		case !d.IsValid(): // nil pointer / interface: a zero value
			if field {
				weaken(OptAgree)
			} else {
				weaken(OptFree)
			}
		case d.Type() != timeType && (d.Kind() == reflect.Struct || d.Kind() == reflect.Map) && emptiedObject(val):
			weaken(OptFree)
		case (d.Kind() == reflect.String || d.Kind() == reflect.Slice || d.Kind() == reflect.Map) && d.Len() == 0:
			// empty container behind a pointer or interface
			weaken(OptFree)
		case d.IsZero():
			if field {
				weaken(OptAgree)
			} else {
				weaken(OptFree)
			}
		}
	}
	return pres, true
}

func lowerFirst(s string) string {
	r := []rune(s)
	r[0] = unicode.ToLower(r[0])
	return string(r)
}

func plainKey(name string, o *Opts) string {
	if o.KeyExact {
		return name
	}
	return lowerFirst(name)
}

func exported(f reflect.StructField) bool { return f.PkgPath == "" }

func encodeStruct(v reflect.Value, o *Opts) *Node {
	n := &Node{Kind: 'o'}
	t := v.Type()
	if o.CreateKey != "" {
		name := t.Name()
		if o.FullPath {
			name = t.PkgPath() + "/" + t.Name()
		}
		pres := Must
		if name == "" && o.OmitEmpty {
			pres = OptFree // an anonymous type: the member is an empty string, which OmitEmpty skips
		}
		n.Members = append(n.Members, &Member{Key: o.CreateKey, Val: str(name), Pres: pres, Field: -1})
	}
	collect(n, v, o, -1, false)
	return n
}

// collect appends the members of struct value v. top is the index of the
// top-level field the members are attributed to (-1: use own index). absent
// is set while flattening a nil embedded pointer: the members are optional
// nulls ("a nil pointer anywhere encodes as null or is omitted").
func collect(n *Node, v reflect.Value, o *Opts, top int, absent bool) {
	t := v.Type()
	for i := 0; i < t.NumField(); i++ {
		f := t.Field(i)
		origin := top
		if origin < 0 {
			origin = i
		}
		if f.Anonymous && !o.NestEmbed {
			ft := f.Type
			if ft.Kind() == reflect.Ptr {
				ft = ft.Elem()
			}
			if ft.Kind() == reflect.Struct {
				if !exported(f) && f.Type.Kind() == reflect.Ptr {
					continue
				}
				var fv reflect.Value
				gone := absent
				if !gone {
					fv = v.Field(i)
					if fv.Kind() == reflect.Ptr {
						if fv.IsNil() {
							gone = true
						} else {
							fv = fv.Elem()
						}
					}
				}
				if gone {
					fv = reflect.Zero(ft)
				}
				collect(n, fv, o, origin, gone)
				continue
			}
		}
		if !exported(f) {
			continue
		}
		key := plainKey(f.Name, o)
		omitTag, asString := false, false
		if o.UseTags {
			if tag, ok := f.Tag.Lookup("json"); ok && tag != "" {
				parts := strings.Split(tag, ",")
				switch {
				case parts[0] == "-" && len(parts) == 1:
					continue
				case parts[0] != "":
					key = parts[0]
				}
				for _, p := range parts[1:] {
					switch p {
					case "omitempty":
						omitTag = true
					case "string":
						asString = true
					}
				}
			}
		}
		if absent {
			n.Members = append(n.Members, &Member{Key: key, Val: null(), Pres: OptFree, Field: origin})
			continue
		}
		fv := v.Field(i)
		if omitTag && goEmpty(fv) {
			continue // the tag drops exactly this field
		}
		val := encode(fv, o)
		typedNil := omitTag && fv.Kind() == reflect.Interface && isNilRef(fv)
		if asString {
			switch fv.Kind() {
			case reflect.Bool:
				val = str(strconv.FormatBool(fv.Bool()))
			case reflect.Int, reflect.Int8, reflect.Int16, reflect.Int32, reflect.Int64:
				val = str(strconv.FormatInt(fv.Int(), 10))
			case reflect.Uint, reflect.Uint8, reflect.Uint16, reflect.Uint32, reflect.Uint64:
				val = str(strconv.FormatUint(fv.Uint(), 10))
			case reflect.Float32:
				val = str(strconv.FormatFloat(fv.Float(), 'g', -1, 32))
			case reflect.Float64:
				val = str(strconv.FormatFloat(fv.Float(), 'g', -1, 64))
			case reflect.String:
				// encoding/json quotes twice, ojg documents nothing: both accepted
				val.Alts = append(val.Alts, str(strconv.Quote(fv.String())))
			case reflect.Ptr:
				// encoding/json applies the option through a pointer to a
				// scalar, ojg documents nothing: both accepted
				if !fv.IsNil() {
					switch ev := fv.Elem(); ev.Kind() {
					case reflect.Bool:
						val.Alts = append(val.Alts, str(strconv.FormatBool(ev.Bool())))
					case reflect.Int, reflect.Int8, reflect.Int16, reflect.Int32, reflect.Int64:
						val.Alts = append(val.Alts, str(strconv.FormatInt(ev.Int(), 10)))
					case reflect.Uint, reflect.Uint8, reflect.Uint16, reflect.Uint32, reflect.Uint64:
						val.Alts = append(val.Alts, str(strconv.FormatUint(ev.Uint(), 10)))
					case reflect.Float32:
						val.Alts = append(val.Alts, str(strconv.FormatFloat(ev.Float(), 'g', -1, 32)))
					case reflect.Float64:
						val.Alts = append(val.Alts, str(strconv.FormatFloat(ev.Float(), 'g', -1, 64)))
					case reflect.String:
						val.Alts = append(val.Alts, str(strconv.Quote(ev.String())))
					}
				}
			}
		}
		pres, keep := memberPresence(fv, val, o, true)
		if !keep {
			continue
		}
		if typedNil && pres < OptAgree {
			// omitempty on an interface holding a typed nil pointer: encoding/json
			// keeps null, "nil is empty" is as good a reading
			pres = OptAgree
		}
		n.Members = append(n.Members, &Member{Key: key, Val: val, Pres: pres, Field: origin})
	}
}

// Match reports whether the normalised tree t (nil, bool, float64, string,
// []any, map[string]any) is an acceptable rendering of n.
func Match(n *Node, t any) bool {
	if match1(n, t) {
		return true
	}
	for _, a := range n.Alts {
		if Match(a, t) {
			return true
		}
	}
	return false
}

func match1(n *Node, t any) bool {
	switch n.Kind {
	case 'n':
		return t == nil
	case 'b':
		b, ok := t.(bool)
		return ok && b == n.B
	case '#':
		f, ok := t.(float64)
		return ok && f == n.Num
	case 's':
		s, ok := t.(string)
		return ok && s == n.S
	case 'a':
		a, ok := t.([]any)
		if !ok || len(a) != len(n.Elems) {
			return false
		}
		for i, e := range n.Elems {
			if !Match(e, a[i]) {
				return false
			}
		}
		return true
	case 'o':
		m, ok := t.(map[string]any)
		if !ok {
			return false
		}
		seen := 0
		for _, mem := range n.Members {
			v, has := m[mem.Key]
			if !has {
				if mem.Pres == Must {
					return false
				}
				continue
			}
			seen++
			if !Match(mem.Val, v) {
				return false
			}
		}
		return seen == len(m)
	}
	return false
}

// WhyNot names the first reason for which a tree does not match the
// reference below its top node: "key" (a member is missing while there is a
// member the reference does not have: it is spelled differently), "absent" (a
// member that has to be there is missing, and nothing else is there in its
// place), "extra" (a member the reference does not have, nothing missing),
// "shape" (another kind of node, another number of elements), "value" (a leaf
// with another value). "" when the tree matches. Two defects that give the same
// kind of wrong value at the top (an array, an object) can then be told apart.
func WhyNot(n *Node, t any) string {
	if Match(n, t) {
		return ""
	}
	switch n.Kind {
	case 'a':
		a, ok := t.([]any)
		if !ok || len(a) != len(n.Elems) {
			return "shape"
		}
		for i, e := range n.Elems {
			if w := WhyNot(e, a[i]); w != "" {
				return w
			}
		}
	case 'o':
		m, ok := t.(map[string]any)
		if !ok {
			return "shape"
		}
		missing, seen := 0, 0
		for _, mem := range n.Members {
			if _, has := m[mem.Key]; has {
				seen++
			} else if mem.Pres == Must {
				missing++
			}
		}
		stray := len(m) - seen
		switch {
		case missing > 0 && stray > 0:
			return "key"
		case missing > 0:
			return "absent"
		case stray > 0:
			return "extra"
		}
		for _, mem := range n.Members {
			if v, has := m[mem.Key]; has {
				if w := WhyNot(mem.Val, v); w != "" {
					return w
				}
			}
		}
	default:
		if _, isA := t.([]any); isA {
			return "shape"
		}
		if _, isM := t.(map[string]any); isM {
			return "shape"
		}
	}
	return "value"
}

// Agree reports whether two normalised trees make the same choices wherever
// the reference requires the encoders to agree: members marked OptFree and
// alternatives of one node are ignored, everything else has to be equal.
func Agree(n *Node, a, b any) bool {
	if n == nil {
		return reflect.DeepEqual(a, b)
	}
	if n.Kind == 'o' {
		ma, oka := a.(map[string]any)
		mb, okb := b.(map[string]any)
		if oka && okb {
			known := map[string]bool{}
			for _, mem := range n.Members {
				known[mem.Key] = true
				if mem.Pres == OptFree {
					continue
				}
				va, ha := ma[mem.Key]
				vb, hb := mb[mem.Key]
				if ha != hb {
					return false
				}
				if ha && !Agree(mem.Val, va, vb) {
					return false
				}
			}
			for k, va := range ma {
				if !known[k] {
					if vb, hb := mb[k]; !hb || !reflect.DeepEqual(va, vb) {
						return false
					}
				}
			}
			for k := range mb {
				if !known[k] {
					if _, ha := ma[k]; !ha {
						return false
					}
				}
			}
			return true
		}
	}
	if n.Kind == 'a' {
		aa, oka := a.([]any)
		ab, okb := b.([]any)
		if oka && okb && len(aa) == len(ab) && len(aa) == len(n.Elems) {
			for i, e := range n.Elems {
				if !Agree(e, aa[i], ab[i]) {
					return false
				}
			}
			return true
		}
	}
	if reflect.DeepEqual(a, b) {
		return true
	}
	return Match(n, a) && Match(n, b) // two alternatives of the same node
}

// String renders the node for messages: optional members carry ? (agree) or
// ~ (free), alternatives are joined by |.
func (n *Node) String() string {
	var b strings.Builder
	n.write(&b)
	return b.String()
}

func (n *Node) write(b *strings.Builder) {
	switch n.Kind {
	case 'n':
		b.WriteString("null")
	case 'b':
		b.WriteString(strconv.FormatBool(n.B))
	case '#':
		b.WriteString(strconv.FormatFloat(n.Num, 'g', -1, 64))
	case 's':
		b.WriteString(strconv.Quote(n.S))
	case 'a':
		b.WriteByte('[')
		for i, e := range n.Elems {
			if i > 0 {
				b.WriteByte(',')
			}
			e.write(b)
		}
		b.WriteByte(']')
	case 'o':
		b.WriteByte('{')
		for i, m := range n.Members {
			if i > 0 {
				b.WriteByte(',')
			}
			b.WriteString(strconv.Quote(m.Key))
			switch m.Pres {
			case OptAgree:
				b.WriteByte('?')
			case OptFree:
				b.WriteByte('~')
			}
			b.WriteByte(':')
			m.Val.write(b)
		}
		b.WriteByte('}')
	}
	for _, a := range n.Alts {
		b.WriteByte('|')
		a.write(b)
	}
}
