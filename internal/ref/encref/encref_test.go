package encref

import (
	"encoding/json"
	"testing"
	"time"
)

type in struct {
	X int
	Y string
}

type Emb struct {
	Ea int
	Eb string
}

type sample struct {
	Ab       bool
	FieldTwo int    `json:"x1,omitempty"`
	Cz       string `json:",omitempty"`
	P        *int
	Sl       []int
	By       []byte
	Skip     int `json:"-"`
	Num      int `json:",string"`
	In       in
	Emb
	hidden int
}

type embOuter struct {
	Emb
	Z int
}

type embPtrOuter struct {
	*Emb
	Z int
}

func tree(t *testing.T, s string) any {
	t.Helper()
	var v any
	if err := json.Unmarshal([]byte(s), &v); err != nil {
		t.Fatalf("bad expectation %s: %v", s, err)
	}
	return v
}

func expect(t *testing.T, name string, v any, o Opts, accept []string, reject []string) {
	t.Helper()
	n := Encode(v, &o)
	for _, a := range accept {
		if !Match(n, tree(t, a)) {
			t.Errorf("%s: reference %s does not accept %s", name, n, a)
		}
	}
	for _, r := range reject {
		if Match(n, tree(t, r)) {
			t.Errorf("%s: reference %s wrongly accepts %s", name, n, r)
		}
	}
}

func TestGoOptionsLikeEncodingJSON(t *testing.T) {
	seven := 7
	v := sample{Ab: true, FieldTwo: 3, Cz: "c", P: &seven, Sl: []int{1}, By: []byte("hi"), Skip: 9, Num: 5, In: in{1, "y"}, Emb: Emb{2, "e"}}
	o := Opts{UseTags: true, KeyExact: true, BytesAs: 1}
	std, _ := json.Marshal(v)
	expect(t, "go nonzero", v, o, []string{string(std),
		`{"Ab":true,"x1":3,"Cz":"c","P":7,"Sl":[1],"By":"aGk=","Num":"5","In":{"X":1,"Y":"y"},"Ea":2,"Eb":"e"}`},
		[]string{`{"Ab":true,"x1":3,"Cz":"c","P":7,"Sl":[1],"By":"aGk=","Num":5,"In":{"X":1,"Y":"y"},"Ea":2,"Eb":"e"}`,
			`{"Ab":true,"x1":3,"Cz":"c","P":7,"Sl":[1],"By":"aGk=","Num":"5","Skip":9,"In":{"X":1,"Y":"y"},"Ea":2,"Eb":"e"}`})
	z := sample{}
	std, _ = json.Marshal(z)
	expect(t, "go zero", z, o, []string{string(std),
		// nil slices may appear as empty ones
		`{"Ab":false,"P":null,"Sl":[],"By":"","Num":"0","In":{"X":0,"Y":""},"Ea":0,"Eb":""}`},
		[]string{
			// omitempty affects only the tagged field: Ab must stay
			`{"P":null,"Sl":[],"By":"","Num":"0","In":{"X":0,"Y":""},"Ea":0,"Eb":""}`,
			// a tagged empty field must go
			`{"Ab":false,"x1":0,"P":null,"Sl":[],"By":"","Num":"0","In":{"X":0,"Y":""},"Ea":0,"Eb":""}`,
			`{"Ab":false,"Cz":"","P":null,"Sl":[],"By":"","Num":"0","In":{"X":0,"Y":""},"Ea":0,"Eb":""}`,
			// a nil pointer is null, not missing
			`{"Ab":false,"Sl":[],"By":"","Num":"0","In":{"X":0,"Y":""},"Ea":0,"Eb":""}`})
}

func TestKeyNaming(t *testing.T) {
	v := embOuter{Emb{1, "e"}, 2}
	expect(t, "lower", v, Opts{}, []string{`{"ea":1,"eb":"e","z":2}`}, []string{`{"Ea":1,"Eb":"e","Z":2}`})
	expect(t, "exact", v, Opts{KeyExact: true}, []string{`{"Ea":1,"Eb":"e","Z":2}`}, []string{`{"ea":1,"eb":"e","z":2}`})
	// tags ignored unless UseTags
	s := sample{FieldTwo: 3, Skip: 4}
	n := Encode(s, &Opts{KeyExact: true})
	m := map[string]bool{}
	for _, mem := range n.Members {
		m[mem.Key] = true
	}
	if !m["FieldTwo"] || !m["Skip"] || m["x1"] || m["hidden"] {
		t.Errorf("tags must be ignored without UseTags and private fields skipped: %s", n)
	}
	// UseTags without a tag falls back to KeyExact (options.go, UseTags)
	n = Encode(s, &Opts{UseTags: true})
	m = map[string]bool{}
	for _, mem := range n.Members {
		m[mem.Key] = true
	}
	if !m["ab"] || !m["x1"] || m["Ab"] || m["skip"] || m["Skip"] {
		t.Errorf("UseTags+lower: %s", n)
	}
}

func TestNestEmbedAndCreateKey(t *testing.T) {
	v := embOuter{Emb{1, "e"}, 2}
	expect(t, "nest", v, Opts{NestEmbed: true, KeyExact: true},
		[]string{`{"Emb":{"Ea":1,"Eb":"e"},"Z":2}`}, []string{`{"Ea":1,"Eb":"e","Z":2}`})
	expect(t, "create", v, Opts{CreateKey: "^", KeyExact: true},
		[]string{`{"^":"embOuter","Ea":1,"Eb":"e","Z":2}`}, []string{`{"Ea":1,"Eb":"e","Z":2}`})
	expect(t, "create nested", sample{}.In, Opts{CreateKey: "^"},
		[]string{`{"^":"in","x":0,"y":""}`}, nil)
	expect(t, "create+nest", v, Opts{CreateKey: "^", KeyExact: true, NestEmbed: true},
		[]string{`{"^":"embOuter","Emb":{"^":"Emb","Ea":1,"Eb":"e"},"Z":2}`}, []string{`{"^":"embOuter","Emb":{"Ea":1,"Eb":"e"},"Z":2}`})
	expect(t, "fullpath", v, Opts{CreateKey: "^", KeyExact: true, FullPath: true},
		[]string{`{"^":"verif/internal/ref/encref/embOuter","Ea":1,"Eb":"e","Z":2}`}, nil)
}

func TestNilEmbeddedPointer(t *testing.T) {
	v := embPtrOuter{nil, 2}
	expect(t, "flatten nil", v, Opts{KeyExact: true},
		[]string{`{"Z":2}`, `{"Ea":null,"Eb":null,"Z":2}`}, []string{`{"Ea":0,"Eb":"","Z":2}`, `{}`})
	expect(t, "nest nil", v, Opts{KeyExact: true, NestEmbed: true},
		[]string{`{"Emb":null,"Z":2}`}, []string{`{"Z":2}`})
	expect(t, "nest nil omitnil", v, Opts{KeyExact: true, NestEmbed: true, OmitNil: true},
		[]string{`{"Z":2}`}, []string{`{"Emb":null,"Z":2}`})
	expect(t, "flatten non-nil", embPtrOuter{&Emb{1, "e"}, 2}, Opts{KeyExact: true},
		[]string{`{"Ea":1,"Eb":"e","Z":2}`}, []string{`{"Z":2}`})
}

func TestOmitOptions(t *testing.T) {
	zero := 0
	type T struct {
		P  *int
		Q  *int
		A  any
		S  string
		Sl []int
		M  map[string]int
		I  int
		In in
		Ar [2]string
	}
	v := T{Q: &zero}
	// OmitNil drops exactly nil pointers and interfaces; a nil slice may stay as []
	expect(t, "omitnil", v, Opts{OmitNil: true, KeyExact: true},
		[]string{`{"Q":0,"S":"","Sl":[],"M":{},"I":0,"In":{"X":0,"Y":""},"Ar":["",""]}`,
			`{"Q":0,"S":"","I":0,"In":{"X":0,"Y":""},"Ar":["",""]}`},
		[]string{`{"P":null,"Q":0,"S":"","Sl":[],"M":{},"I":0,"In":{"X":0,"Y":""},"Ar":["",""]}`,
			`{"Q":0,"Sl":[],"M":{},"I":0,"In":{"X":0,"Y":""},"Ar":["",""]}`})
	// OmitEmpty: "", empty slices and maps must go; zero scalars, nil, zero
	// arrays may go; an object emptied by omission may go
	expect(t, "omitempty", v, Opts{OmitEmpty: true, KeyExact: true},
		[]string{`{}`, `{"Q":0,"I":0,"P":null,"A":null,"In":{},"Ar":["",""]}`, `{"In":{"X":0}}`},
		[]string{`{"S":""}`, `{"Sl":[]}`, `{"M":{}}`, `{"In":{"Y":""}}`, `{"Sl":null}`})
	seven := 7
	w := T{P: &seven, Q: &seven, A: "a", S: "s", Sl: []int{1}, M: map[string]int{"k": 1}, I: 2, In: in{1, "y"}, Ar: [2]string{"a", "b"}}
	all := `{"P":7,"Q":7,"A":"a","S":"s","Sl":[1],"M":{"k":1},"I":2,"In":{"X":1,"Y":"y"},"Ar":["a","b"]}`
	expect(t, "omit both, nothing empty", w, Opts{OmitEmpty: true, OmitNil: true, KeyExact: true},
		[]string{all}, []string{`{"P":7,"Q":7,"A":"a","S":"s","Sl":[1],"M":{"k":1},"I":2,"In":{"X":1,"Y":"y"}}`})
	// presence classes
	n := Encode(v, &Opts{OmitEmpty: true, KeyExact: true})
	want := map[string]Presence{"P": OptAgree, "Q": OptAgree, "A": OptAgree, "I": OptAgree, "In": OptFree, "Ar": OptAgree}
	if len(n.Members) != len(want) {
		t.Errorf("members: %s", n)
	}
	for _, m := range n.Members {
		if want[m.Key] != m.Pres {
			t.Errorf("presence of %s = %d in %s", m.Key, m.Pres, n)
		}
	}
}

func TestBytesTimeFloat(t *testing.T) {
	type T struct {
		B []byte
		T time.Time
		F float32
	}
	tm := time.Unix(1, 5).UTC()
	v := T{B: []byte("hi"), T: tm, F: 0.1}
	expect(t, "string", v, Opts{KeyExact: true}, []string{`{"B":"hi","T":1000000005,"F":0.1}`}, []string{`{"B":"aGk=","T":1000000005,"F":0.1}`})
	expect(t, "base64", v, Opts{KeyExact: true, BytesAs: 1}, []string{`{"B":"aGk=","T":1000000005,"F":0.1}`}, nil)
	expect(t, "array", v, Opts{KeyExact: true, BytesAs: 2}, []string{`{"B":[104,105],"T":1000000005,"F":0.1}`}, nil)
	expect(t, "rfc3339", v, Opts{KeyExact: true, TimeFormat: time.RFC3339Nano},
		[]string{`{"B":"hi","T":"1970-01-01T00:00:01.000000005Z","F":0.1}`}, []string{`{"B":"hi","T":1000000005,"F":0.1}`})
	expect(t, "nil bytes", T{T: tm}, Opts{KeyExact: true, BytesAs: 2},
		[]string{`{"B":[],"T":1000000005,"F":0}`, `{"B":null,"T":1000000005,"F":0}`}, []string{`{"B":"","T":1000000005,"F":0}`})
}

func TestStringTagOnString(t *testing.T) {
	type T struct {
		S string  `json:",string"`
		B bool    `json:",string"`
		F float64 `json:"f,string"`
		L []int   `json:",string"`
	}
	v := T{"s", true, 2.25, []int{1}}
	expect(t, "string tag", v, Opts{UseTags: true, KeyExact: true},
		[]string{`{"S":"s","B":"true","f":"2.25","L":[1]}`, `{"S":"\"s\"","B":"true","f":"2.25","L":[1]}`},
		[]string{`{"S":"s","B":true,"f":"2.25","L":[1]}`, `{"S":"s","B":"true","f":2.25,"L":[1]}`})
	expect(t, "string tag unused", v, Opts{KeyExact: true},
		[]string{`{"S":"s","B":true,"F":2.25,"L":[1]}`}, nil)
}

func TestInterfaceValues(t *testing.T) {
	type T struct{ A any }
	expect(t, "typed nil", T{(*in)(nil)}, Opts{KeyExact: true}, []string{`{"A":null}`}, []string{`{}`})
	expect(t, "typed nil omitnil", T{(*in)(nil)}, Opts{KeyExact: true, OmitNil: true}, []string{`{"A":null}`, `{}`}, nil)
	expect(t, "nil omitnil", T{nil}, Opts{KeyExact: true, OmitNil: true}, []string{`{}`}, []string{`{"A":null}`})
	expect(t, "struct in any", T{in{1, "y"}}, Opts{CreateKey: "^"}, []string{`{"^":"T","a":{"^":"in","x":1,"y":"y"}}`}, nil)
	expect(t, "top nil pointer", (*T)(nil), Opts{}, []string{`null`}, []string{`{}`})
	expect(t, "map", T{map[string]any{"k": "v", "n": 1.5}}, Opts{OmitEmpty: true, OmitNil: true}, []string{`{"a":{"k":"v","n":1.5}}`}, []string{`{"a":{"k":"v"}}`})
}

func TestAgree(t *testing.T) {
	type T struct {
		I  int
		In in
		Sl []int
	}
	o := Opts{OmitEmpty: true, KeyExact: true}
	n := Encode(T{}, &o)
	a, b := tree(t, `{"I":0,"In":{}}`), tree(t, `{"I":0}`)
	if !Agree(n, a, b) {
		t.Errorf("free member must not matter: %s", n)
	}
	c := tree(t, `{"In":{}}`)
	if Agree(n, a, c) {
		t.Errorf("agree member must matter: %s", n)
	}
	n = Encode(T{}, &Opts{KeyExact: true})
	if !Agree(n, tree(t, `{"I":0,"In":{"X":0,"Y":""},"Sl":[]}`), tree(t, `{"I":0,"In":{"X":0,"Y":""},"Sl":null}`)) {
		t.Errorf("nil slice alternatives must agree")
	}
	if Agree(n, tree(t, `{"I":0,"In":{"X":0,"Y":""},"Sl":[]}`), tree(t, `{"I":1,"In":{"X":0,"Y":""},"Sl":[]}`)) {
		t.Errorf("different values must not agree")
	}
}

func TestStringTagThroughPointer(t *testing.T) {
	seven := 7
	type T struct {
		P *int `json:",string"`
		Q *int `json:",string"`
	}
	v := T{P: &seven}
	std, _ := json.Marshal(v)
	expect(t, "ptr string tag", v, Opts{UseTags: true, KeyExact: true},
		[]string{string(std), `{"P":7,"Q":null}`, `{"P":"7","Q":null}`}, []string{`{"P":"8","Q":null}`, `{"P":7}`})
}
