package pathref

import (
	"fmt"
	"reflect"
	"testing"

	"github.com/ohler55/ojg/jp"
)

func vals(hs []Hit) []any {
	out := []any{}
	for _, h := range hs {
		out = append(out, h.Value)
	}
	return out
}

func TestSliceIndexes(t *testing.T) {
	py := Variant{Clamp: true, NegDefaults: true}
	for _, c := range []struct {
		s    []int
		n    int
		want []int
	}{
		{[]int{1, 3}, 5, []int{1, 2}},
		{[]int{0, MaxEnd}, 5, []int{0, 1, 2, 3, 4}},
		{[]int{-2, MaxEnd}, 5, []int{3, 4}},
		{[]int{0, -1}, 5, []int{0, 1, 2, 3}},
		{[]int{0, MaxEnd, 2}, 5, []int{0, 2, 4}},
		{[]int{4, 0, -1}, 5, []int{4, 3, 2, 1}},
		{[]int{0, MaxEnd, -1}, 5, []int{4, 3, 2, 1, 0}},
		{[]int{-1, -6, -2}, 5, []int{4, 2, 0}},
		{[]int{7, 1, -2}, 5, []int{4, 2}},
		{[]int{1, 3, 0}, 5, nil},
		{[]int{3, 1}, 5, nil},
		{[]int{0, 10}, 2, []int{0, 1}},
	} {
		if got := SliceIndexes(c.s, c.n, py); !reflect.DeepEqual(got, c.want) {
			t.Errorf("slice %v n=%d: got %v want %v", c.s, c.n, got, c.want)
		}
	}
	// arithmetic reading: start outside the array is not clamped
	if got := SliceIndexes([]int{7, 1, -2}, 5, Variant{Clamp: false, NegDefaults: true}); !reflect.DeepEqual(got, []int{3}) {
		t.Errorf("arithmetic: %v", got)
	}
}

func TestSelect(t *testing.T) {
	data := map[string]any{
		"a": []any{1, 2, map[string]any{"x": 3, "a": []any{9}}},
		"b": map[string]any{"x": 4},
	}
	py := Variants[0]
	for _, c := range []struct {
		path string
		want string
	}{
		{"$.a[0]", "[1]"},
		{"$.a[-1].x", "[3]"},
		{"$.b.*", "[4]"},
		{"$.a[*]", "[1 2 map[a:[9] x:3]]"},
		{"$..x", "[3 4]"},
		{"$.a[2,0]", "[map[a:[9] x:3] 1]"},
		{"$.a[1:]", "[2 map[a:[9] x:3]]"},
		{"$..a[0]", "[1 9]"},
		{"$.a[?(@.x == 3)].x", "[3]"},
		{"$.c", "[]"},
		{"$.a.x", "[]"},
		{"$['a','b'][0]", "[1]"},
	} {
		x := jp.MustParseString(c.path)
		if got := fmt.Sprint(vals(Select(x, data, py))); got != c.want {
			t.Errorf("%s: got %s want %s", c.path, got, c.want)
		}
	}
	hs := Select(jp.MustParseString("$.a[-1].a[0]"), data, py)
	if len(hs) != 1 || fmt.Sprint(hs[0].Loc) != "[a 2 a 0]" {
		t.Errorf("loc: %v", hs)
	}
}
