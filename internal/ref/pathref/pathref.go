// Package pathref is the reference JSONPath evaluator: a small recursive
// interpreter of jp.Expr over simple data ([]any, map[string]any, scalars)
// that shares no evaluation code with ojg. Where the property statement leaves
// a choice open (slices with |step| > 1 whose start lies outside the array,
// default bounds of a negative-step slice) it is parameterised by a Variant;
// an implementation is correct if it agrees with one variant.
package pathref

import (
	"sort"

	"github.com/ohler55/ojg/jp"
	"verif/internal/gens"
	"verif/internal/ref/scriptref"
)

// Loc is a normalised location: string keys and non-negative int indexes.
type Loc []any

// Hit is one selected location with its element.
type Hit struct {
	Loc   Loc
	Value any
}

// Variant fixes the readings the statement leaves open.
type Variant struct {
	Clamp       bool // out-of-range slice bounds are clamped (Python) instead of the pure progression filtered to valid indexes
	NegDefaults bool // omitted bounds of a negative-step slice mean "from the last to the first" (Python) instead of start=0 / end=len
	// Inclusive is NOT a reading of the statement: it is the reading jp's mutating
	// operations implement (known finding C13 slice-inclusive): the end is
	// inclusive, an omitted end is the last element, a start below -len selects
	// nothing, a negative step walks from start down to end inclusively. It is
	// only used to recognise that finding, never to accept a result.
	Inclusive bool
	// NegStartEmpty is NOT a reading of the statement either: it is what Get,
	// First, Has and GetNodes implement for a negative-step slice whose start
	// lies at or beyond the end of the array (known finding C05): nothing is
	// selected. Only used to recognise that finding.
	NegStartEmpty bool
}

// Variants lists all readings.
var Variants = []Variant{{Clamp: true, NegDefaults: true}, {Clamp: true}, {NegDefaults: true}, {}}

// MaxEnd is the value jp uses for an omitted slice end.
const MaxEnd = int(^uint(0) >> 1)

// frag is the evaluator's own fragment form (both public entry points convert to it).
type frag struct {
	kind  string // root at child nth wild desc union slice filter
	key   string
	n     int
	union []any
	slice []int
	// match decides a filter for one element; determined is false when the
	// reference cannot tell (the hit then makes the whole result open).
	match func(elem, root any) (keep, determined bool)
}

// Open is set by Select/SelectSpec when a filter verdict was undetermined.
type Result struct {
	Hits []Hit
	Open bool
	// MapOrder is set when the evaluation walked the members of an object
	// with two or more members (wildcard, filter, descent): the order of the
	// hits then depends on Go's map order and only the multiset is defined.
	MapOrder bool
}

// Select evaluates a jp.Expr; filters are decided by the expression's own
// Script.Match (C12 checks scripts against scriptref separately).
func Select(x jp.Expr, data any, v Variant) []Hit {
	fs := make([]frag, 0, len(x))
	for _, f := range x {
		switch t := f.(type) {
		case jp.Root:
			fs = append(fs, frag{kind: "root"})
		case jp.At:
			fs = append(fs, frag{kind: "at"})
		case jp.Bracket:
		case jp.Child:
			fs = append(fs, frag{kind: "child", key: string(t)})
		case jp.Nth:
			fs = append(fs, frag{kind: "nth", n: int(t)})
		case jp.Wildcard:
			fs = append(fs, frag{kind: "wild"})
		case jp.Descent:
			fs = append(fs, frag{kind: "desc"})
		case jp.Union:
			fs = append(fs, frag{kind: "union", union: []any(t)})
		case jp.Slice:
			fs = append(fs, frag{kind: "slice", slice: []int(t)})
		case *jp.Filter:
			flt := t
			fs = append(fs, frag{kind: "filter", match: func(e, _ any) (bool, bool) { return flt.Match(e), true }})
		default:
			fs = append(fs, frag{kind: "unknown"})
		}
	}
	r := &Result{}
	r.Hits = step(fs, data, []Hit{{Loc: Loc{}, Value: data}}, v, r)
	return r.Hits
}

// SelectSpec evaluates a serialisable expression description; filters are
// decided by the scriptref reference evaluator (no ojg code involved).
func SelectSpec(x gens.JPExpr, data any, v Variant) *Result {
	fs := make([]frag, 0, len(x))
	for _, f := range x {
		switch f.K {
		case "bracket":
		case "child":
			fs = append(fs, frag{kind: "child", key: string(f.Key)})
		case "nth":
			fs = append(fs, frag{kind: "nth", n: f.N})
		case "union":
			var u []any
			for _, m := range f.U {
				if m.S != nil {
					u = append(u, string(*m.S))
				} else {
					u = append(u, int(*m.I))
				}
			}
			fs = append(fs, frag{kind: "union", union: u})
		case "slice":
			fs = append(fs, frag{kind: "slice", slice: f.S})
		case "filter":
			node := f.F
			fs = append(fs, frag{kind: "filter", match: func(e, root any) (bool, bool) {
				switch scriptref.Eval(node, e, root) {
				case scriptref.T:
					return true, true
				case scriptref.F:
					return false, true
				}
				return false, false
			}})
		default:
			fs = append(fs, frag{kind: f.K}) // root at wild desc
		}
	}
	r := &Result{}
	r.Hits = step(fs, data, []Hit{{Loc: Loc{}, Value: data}}, v, r)
	return r
}

func step(x []frag, root any, cur []Hit, v Variant, r *Result) []Hit {
	if len(x) == 0 {
		return cur
	}
	var next []Hit
	for _, h := range cur {
		next = append(next, apply(x[0], root, h, x[1:], v, r)...)
	}
	if x[0].kind == "desc" {
		return next // apply handled the rest
	}
	return step(x[1:], root, next, v, r)
}

func child(h Hit, key any, val any) Hit {
	loc := make(Loc, len(h.Loc)+1)
	copy(loc, h.Loc)
	loc[len(h.Loc)] = key
	return Hit{Loc: loc, Value: val}
}

func sortedKeys(m map[string]any) []string {
	ks := make([]string, 0, len(m))
	for k := range m {
		ks = append(ks, k)
	}
	sort.Strings(ks)
	return ks
}

// members lists the direct members of a container (arrays in order, objects by sorted key).
func members(h Hit) []Hit {
	var out []Hit
	switch t := h.Value.(type) {
	case []any:
		for i, e := range t {
			out = append(out, child(h, i, e))
		}
	case map[string]any:
		for _, k := range sortedKeys(t) {
			out = append(out, child(h, k, t[k]))
		}
	}
	return out
}

func noteMapOrder(h Hit, r *Result) {
	if m, ok := h.Value.(map[string]any); ok && len(m) > 1 && r != nil {
		r.MapOrder = true
	}
}

func apply(f frag, root any, h Hit, rest []frag, v Variant, r *Result) []Hit {
	switch f.kind {
	case "root":
		return []Hit{{Loc: Loc{}, Value: root}}
	case "at":
		return []Hit{h}
	case "child":
		if m, ok := h.Value.(map[string]any); ok {
			if e, has := m[f.key]; has {
				return []Hit{child(h, f.key, e)}
			}
		}
	case "nth":
		if a, ok := h.Value.([]any); ok {
			i := f.n
			if i < 0 {
				i += len(a)
			}
			if 0 <= i && i < len(a) {
				return []Hit{child(h, i, a[i])}
			}
		}
	case "wild":
		noteMapOrder(h, r)
		return members(h)
	case "desc":
		var out []Hit
		if len(rest) == 0 { // a bare trailing descent: the node and all descendants
			var all func(n Hit)
			all = func(n Hit) {
				out = append(out, n)
				noteMapOrder(n, r)
				for _, m := range members(n) {
					all(m)
				}
			}
			all(h)
			return out
		}
		// the rest applies to the node itself and to every descendant
		var walk func(n Hit)
		walk = func(n Hit) {
			out = append(out, step(rest, root, []Hit{n}, v, r)...)
			noteMapOrder(n, r)
			for _, m := range members(n) {
				walk(m)
			}
		}
		walk(h)
		return out
	case "union":
		var out []Hit
		for _, u := range f.union {
			switch tu := u.(type) {
			case string:
				out = append(out, apply(frag{kind: "child", key: tu}, root, h, nil, v, r)...)
			case int:
				out = append(out, apply(frag{kind: "nth", n: tu}, root, h, nil, v, r)...)
			case int64:
				out = append(out, apply(frag{kind: "nth", n: int(tu)}, root, h, nil, v, r)...)
			}
		}
		return out
	case "slice":
		a, ok := h.Value.([]any)
		if !ok {
			return nil
		}
		var out []Hit
		for _, i := range SliceIndexes(f.slice, len(a), v) {
			out = append(out, child(h, i, a[i]))
		}
		return out
	case "filter":
		var out []Hit
		noteMapOrder(h, r)
		for _, m := range members(h) {
			keep, det := f.match(m.Value, root)
			if !det {
				r.Open = true
			}
			if keep {
				out = append(out, m)
			}
		}
		return out
	}
	return nil
}

// SliceIndexes returns the indexes a slice [start:end:step] selects in an
// array of length n: from start (inclusive) to end (exclusive) by step,
// negative bounds counting from the end, a negative step walking downwards,
// step 0 selecting nothing.
func SliceIndexes(s []int, n int, v Variant) []int {
	start, end, st := 0, MaxEnd, 1
	hasStart, hasEnd := false, false
	if 0 < len(s) {
		start, hasStart = s[0], s[0] != 0 // jp stores an omitted start as 0
	}
	if 1 < len(s) {
		end, hasEnd = s[1], s[1] != MaxEnd
	}
	if 2 < len(s) {
		st = s[2]
	}
	if st == 0 {
		return nil
	}
	if v.Inclusive {
		if len(s) < 2 || end == MaxEnd {
			end = -1
		}
		if start < 0 {
			start += n
		}
		if end < 0 {
			end += n
		}
		if n <= end {
			end = n - 1
		}
		if start < 0 || end < 0 || n <= start {
			return nil
		}
		var out []int
		for i := start; (0 < st && i <= end) || (st < 0 && end <= i); i += st {
			out = append(out, i)
		}
		return out
	}
	if v.NegStartEmpty && st < 0 && n <= start {
		return nil
	}
	if st < 0 && v.NegDefaults {
		if !hasStart {
			start = n - 1
			if len(s) > 0 && s[0] == 0 && hasZeroStart(s) {
				start = 0
			}
		}
		if !hasEnd {
			end = -n - 1 // one before the first element
		}
	}
	if start < 0 {
		start += n
	}
	if end < 0 {
		end += n
	} else if end == MaxEnd && st > 0 {
		end = n
	} else if end == MaxEnd {
		end = n
	}
	if v.Clamp {
		if st > 0 {
			if start < 0 {
				start = 0
			}
			if end > n {
				end = n
			}
		} else {
			if start > n-1 {
				start = n - 1
			}
			if end < -1 {
				end = -1
			}
		}
	}
	var out []int
	if st > 0 {
		for i := start; i < end; i += st {
			if 0 <= i && i < n {
				out = append(out, i)
			}
			if i > n {
				break
			}
		}
	} else {
		for i := start; i > end; i += st {
			if 0 <= i && i < n {
				out = append(out, i)
			}
			if i < -1 {
				break
			}
		}
	}
	return out
}

// hasZeroStart is a hook for callers that know an explicit 0 start was
// written; jp cannot tell an explicit 0 from an omitted start, so both
// readings are already covered by the NegDefaults variants.
func hasZeroStart([]int) bool { return false }
