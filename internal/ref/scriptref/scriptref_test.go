package scriptref

import (
	"encoding/json"
	"reflect"
	"testing"
)

func TestApplyTable(t *testing.T) {
	no := Nothing{}
	l0, l2 := []any{}, []any{int64(1), "a"}
	m0, m1 := map[string]any{}, map[string]any{"a": int64(1)}
	type row struct {
		op   string
		a, b any
		want any // bool, int64, float64, Nothing{} or "any"
	}
	rows := []row{
		// equality: numbers by value across int and float
		{"==", int64(1), 1.0, true}, {"!=", int64(1), 1.0, false},
		{"==", 1.5, 2.5, false}, {"!=", 1.5, 2.5, true},
		{"==", 0.0, int64(0), true}, {"!=", 2.5, 2.5, false},
		// mismatched kinds are simply unequal
		{"==", int64(1), "1", false}, {"!=", int64(1), "1", true},
		{"==", nil, false, false}, {"!=", nil, no, true},
		{"==", nil, nil, true}, {"==", no, no, true}, {"!=", no, no, false},
		{"==", "a", "a", true}, {"!=", "a", "b", true},
		// containers: unequal to other kinds and to different containers; same container open
		{"==", l0, m0, false}, {"!=", l0, m0, true},
		{"==", l0, l2, false}, {"!=", m0, m1, true},
		{"==", l0, []any{}, "any"}, {"!=", m1, map[string]any{"a": 1.0}, "any"},
		{"==", l2, int64(1), false},
		// ordering
		{"<", int64(1), 2.5, true}, {">=", 1.0, int64(1), true}, {"<=", -1.5, int64(-1), true},
		{">", int64(2), int64(2), false}, {"<", "a", "b", true}, {"<", "", "a", true}, {">=", "b", "a", true},
		{"<", "1", int64(2), false}, {">", int64(2), "1", false}, {"<=", nil, int64(0), false},
		{"<", no, int64(1), false}, {">=", l0, int64(0), false},
		{"<=", nil, nil, "any"}, {"<", true, false, "any"}, {"<", l0, l2, "any"},
		// logic
		{"&&", true, true, true}, {"&&", true, int64(1), false}, {"&&", "a", true, false},
		{"||", false, true, true}, {"||", int64(1), "a", false}, {"||", no, true, true},
		{"!", true, nil, false}, {"!", false, nil, true}, {"!", int64(0), nil, "any"}, {"!", no, nil, "any"},
		// arithmetic
		{"+", int64(1), int64(2), int64(3)}, {"-", int64(1), 2.5, -1.5}, {"*", -1.5, int64(2), -3.0},
		{"/", int64(2), int64(1), int64(2)}, {"/", int64(1), int64(2), "any"}, {"/", int64(1), int64(0), "any"},
		{"/", 1.0, int64(2), 0.5}, {"/", 1.0, 0.0, "any"}, {"+", "a", "b", "any"}, {"-", nil, int64(1), "any"},
		// in
		{"in", int64(1), l2, true}, {"in", "a", l2, true}, {"in", "b", l2, false}, {"in", 1.0, l2, "any"},
		{"in", int64(1), l0, false}, {"in", int64(1), "1", "any"}, {"in", l0, []any{[]any{}}, "any"},
		{"in", l0, l2, false}, {"in", nil, []any{nil}, true},
		// empty
		{"empty", "", true, true}, {"empty", "a", true, false}, {"empty", l0, false, false}, {"empty", m1, false, true},
		{"empty", int64(0), true, "any"}, {"empty", l0, int64(1), "any"},
		// has / exists
		{"has", no, true, false}, {"has", no, false, true}, {"exists", int64(0), true, true},
		{"exists", false, false, false}, {"has", nil, true, "any"}, {"has", int64(1), "x", "any"},
		// regex
		{"~=", "abc", "b", true}, {"~=", "abc", "^b", false}, {"~=", int64(1), "1", false},
		{"~=", "abc", Regex("c$"), true}, {"~=", "a", "(", "any"}, {"~=", "a", int64(1), "any"},
		{"match", "abc", "b", false}, {"match", "abc", "a.c", true}, {"match", "ab", "a|ab", true},
		{"search", "abc", "b", true}, {"search", "abc", "x", false},
		{"match", int64(1), "1", no}, {"search", no, "a", no}, {"match", "a", "", "any"}, {"search", "a", int64(1), "any"},
		// length
		{"length", "abc", nil, int64(3)}, {"length", l2, nil, int64(2)}, {"length", m1, nil, int64(1)},
		{"length", int64(5), nil, no}, {"length", no, nil, no}, {"length", nil, nil, no},
	}
	for _, r := range rows {
		got := Apply(r.op, r.a, r.b)
		if r.want == "any" {
			if !got.Any {
				t.Errorf("%v %s %v: want any, got %#v", r.a, r.op, r.b, got.V)
			}
			continue
		}
		if got.Any || !reflect.DeepEqual(got.V, r.want) {
			t.Errorf("%v %s %v: want %#v, got %#v (any=%v)", r.a, r.op, r.b, r.want, got.V, got.Any)
		}
	}
}

func TestSelect(t *testing.T) {
	d := map[string]any{
		"x": []any{int64(1), int64(2), int64(3)},
		"m": map[string]any{"z": "p", "k": map[string]any{"z": "q", "k": map[string]any{"z": "r"}}},
		"e": []any{},
	}
	chk := func(p *Path, cur, root any, want ...any) {
		t.Helper()
		got, ok := p.Select(cur, root)
		if !ok || len(got) != len(want) {
			t.Fatalf("got %v ok=%v want %v", got, ok, want)
		}
		for i := range want {
			if !reflect.DeepEqual(got[i], want[i]) {
				t.Fatalf("got %v want %v", got, want)
			}
		}
	}
	chk(P(K("x"), I(0)).Path, d, nil, int64(1))
	chk(P(K("x"), I(-1)).Path, d, nil, int64(3))
	chk(P(K("x"), I(3)).Path, d, nil)
	chk(P(K("x"), W()).Path, d, nil, int64(1), int64(2), int64(3))
	chk(P(K("e"), W()).Path, d, nil)
	chk(P(K("m"), D(), K("z")).Path, d, nil, "p", "q", "r")
	chk(P(K("q")).Path, d, nil)
	chk(RP(I(0), K("e")).Path, nil, []any{d}, []any{})
	chk(P().Path, int64(7), nil, int64(7))
	// nested filter: elements of x greater than 1
	f := B(">", P(), C(int64(1)))
	chk(&Path{Steps: []Step{K("x"), {Filter: f}}}, d, d, int64(2), int64(3))
}

func TestEval(t *testing.T) {
	el := map[string]any{"a": int64(1), "b": int64(2), "t": true, "n": "s",
		"m": []any{int64(1), int64(5), "x"}, "e": []any{}}
	a1 := B("==", P(K("a")), C(int64(1))) // true
	b1 := B("==", P(K("b")), C(int64(1))) // false
	many := B("==", P(K("m"), W()), C(int64(5)))
	type row struct {
		n    *Node
		want Tri
	}
	rows := []row{
		{a1, T}, {b1, F},
		{B("&&", a1, b1), F}, {B("||", a1, b1), T},
		{N1("!", b1), T}, {N1("!", B("||", a1, b1)), F},
		{B("||", b1, B("&&", a1, N1("!", b1))), T},
		{B("&&", B("||", a1, a1), b1), F},
		{B("&&", a1, P(K("t"))), T}, {B("&&", a1, P(K("n"))), F}, {B("||", b1, P(K("q"))), F},
		{N1("!", P(K("t"))), F}, {N1("!", P(K("n"))), U}, {N1("!", P(K("q"))), U},
		{B("&&", a1, N1("!", P(K("n")))), U}, {B("&&", b1, N1("!", P(K("n")))), F},
		// multi-valued: some value matches
		{many, T}, {B("==", P(K("m"), W()), C(int64(7))), F},
		{B("!=", P(K("m"), W()), C(int64(1))), T},
		{B("<", P(K("m"), W()), P(K("m"), W())), T},
		{B("==", P(K("e"), W()), C(Nothing{})), T}, // zero values: Nothing
		{B("has", P(K("e"), W()), C(false)), T},
		{N1("!", many), U}, // whole-script reading true (1 != 5), per-comparison reading false
		{N1("!", B("==", P(K("m"), W()), C(int64(7)))), T},
		{B("&&", many, a1), T},
		// the same multi-valued atom (one shared node) used twice: values are chosen per occurrence
		// under the whole-script reading (true: 5 == 5 and !(1 == 5)), false per comparison: open
		{B("&&", many, N1("!", many)), U},
		{B("&&", many, many), T},
		{B("<", P(K("m"), I(0)), P(K("m"), I(1))), T},
		// value-returning operators at the top are outside the statement
		{B("+", C(int64(1)), C(int64(1))), U}, {N1("length", P(K("m"))), U}, {P(K("t")), U},
		// probes
		{B("==", N1("length", P(K("m"))), C(int64(3))), T},
		{B("==", N1("count", P(K("m"), W())), C(int64(3))), T},
		{B("==", N1("count", P(K("q"))), C(int64(0))), T},
		{B("==", N1("length", P(K("a"))), C(Nothing{})), T},
		{B("==", B("+", P(K("a")), P(K("b"))), C(3.0)), T},
		{B("==", B("/", P(K("a")), P(K("b"))), C(int64(0))), U},
		{B("match", P(K("n")), C("s")), T}, {B("match", P(K("a")), C("1")), F},
	}
	for i, r := range rows {
		if got := Eval(r.n, el, el); got != r.want {
			b, _ := json.Marshal(r.n)
			t.Errorf("row %d %s: want %v got %v", i, b, r.want, got)
		}
	}
}

func TestSpecRoundTrip(t *testing.T) {
	v := map[string]any{"a\xffb": []any{nil, true, int64(-1), 1.0, 1e20, "q'\"\\\x01", Nothing{}, Regex("a/b")}, "": map[string]any{}}
	b, err := json.Marshal(Spec(v))
	if err != nil {
		t.Fatal(err)
	}
	var s VSpec
	if err := json.Unmarshal(b, &s); err != nil {
		t.Fatal(err)
	}
	if !reflect.DeepEqual(s.Value(), v) {
		t.Fatalf("round trip: %#v", s.Value())
	}
	n := B("&&", P(K("a'\xfe"), I(-1), W(), D()), C("x"))
	b, _ = json.Marshal(n)
	var m Node
	if err := json.Unmarshal(b, &m); err != nil {
		t.Fatal(err)
	}
	if !reflect.DeepEqual(&m, n) {
		t.Fatalf("node round trip: %s", b)
	}
}
