// Package scriptref is the reference evaluator for JSONPath filter scripts
// (property C12). It is deliberately small, recursive and shares no code with
// ojg. Where the property statement or the operator documentation leave a
// result open the evaluator answers U (unknown: every outcome is accepted), so
// an oracle built on it never demands more than the statement.
//
// Value domain: nil, bool, int64, float64, string, []any, map[string]any,
// Nothing{} (a path that selected nothing) and Regex (a regex constant).
package scriptref

import (
	"encoding/json"
	"regexp"
	"sort"
	"strconv"
)

// Nothing is the value of a path that selects nothing.
type Nothing struct{}

// Regex is a regular-expression constant (its source text).
type Regex string

// Tri is a truth value with "unknown".
type Tri int8

// Truth values.
const (
	F Tri = iota
	T
	U
)

func (t Tri) String() string { return [...]string{"false", "true", "any"}[t] }

// Accepts reports whether the boolean b is an acceptable outcome.
func (t Tri) Accepts(b bool) bool { return t == U || (t == T) == b }

// QS is a string that survives JSON (Go-quoted ASCII inside the JSON string),
// needed for keys and constants that are not valid UTF-8.
type QS string

// MarshalJSON implements json.Marshaler.
func (q QS) MarshalJSON() ([]byte, error) { return json.Marshal(strconv.QuoteToASCII(string(q))) }

// UnmarshalJSON implements json.Unmarshaler.
func (q *QS) UnmarshalJSON(b []byte) error {
	var s string
	if err := json.Unmarshal(b, &s); err != nil {
		return err
	}
	u, err := strconv.Unquote(s)
	if err != nil {
		return err
	}
	*q = QS(u)
	return nil
}

// Member is one object member of a VSpec.
type Member struct {
	K QS    `json:"k"`
	V VSpec `json:"v"`
}

// VSpec is the JSON-serialisable description of a value.
type VSpec struct {
	T string   `json:"t"` // nil bool int float str list map nothing regex
	B bool     `json:"b,omitempty"`
	I int64    `json:"i,omitempty"`
	F float64  `json:"f,omitempty"`
	S QS       `json:"s,omitempty"`
	L []VSpec  `json:"l,omitempty"`
	M []Member `json:"m,omitempty"`
}

// Spec describes a value of the domain.
func Spec(v any) VSpec {
	switch t := v.(type) {
	case nil:
		return VSpec{T: "nil"}
	case bool:
		return VSpec{T: "bool", B: t}
	case int64:
		return VSpec{T: "int", I: t}
	case int:
		return VSpec{T: "int", I: int64(t)}
	case float64:
		return VSpec{T: "float", F: t}
	case string:
		return VSpec{T: "str", S: QS(t)}
	case Nothing:
		return VSpec{T: "nothing"}
	case Regex:
		return VSpec{T: "regex", S: QS(t)}
	case []any:
		out := VSpec{T: "list", L: []VSpec{}}
		for _, e := range t {
			out.L = append(out.L, Spec(e))
		}
		return out
	case map[string]any:
		out := VSpec{T: "map", M: []Member{}}
		keys := make([]string, 0, len(t))
		for k := range t {
			keys = append(keys, k)
		}
		sort.Strings(keys)
		for _, k := range keys {
			out.M = append(out.M, Member{K: QS(k), V: Spec(t[k])})
		}
		return out
	}
	panic("scriptref.Spec: value outside the domain")
}

// Value builds the described value (fresh containers on every call).
func (s VSpec) Value() any {
	switch s.T {
	case "nil":
		return nil
	case "bool":
		return s.B
	case "int":
		return s.I
	case "float":
		return s.F
	case "str":
		return string(s.S)
	case "nothing":
		return Nothing{}
	case "regex":
		return Regex(s.S)
	case "list":
		out := make([]any, 0, len(s.L))
		for _, e := range s.L {
			out = append(out, e.Value())
		}
		return out
	case "map":
		out := make(map[string]any, len(s.M))
		for _, m := range s.M {
			out[string(m.K)] = m.V.Value()
		}
		return out
	}
	panic("scriptref.VSpec: unknown tag " + s.T)
}

// Step is one path step.
type Step struct {
	Key    *QS   `json:"k,omitempty"`
	Idx    *int  `json:"i,omitempty"`
	Wild   bool  `json:"w,omitempty"`
	Desc   bool  `json:"d,omitempty"`
	Filter *Node `json:"f,omitempty"`
}

// Path is an operand path: @ (or $ when Root) followed by steps.
type Path struct {
	Root  bool   `json:"root,omitempty"`
	Steps []Step `json:"s,omitempty"`
}

// K, I, W, D build steps.
func K(k string) Step { q := QS(k); return Step{Key: &q} }

// I is an index step.
func I(i int) Step { return Step{Idx: &i} }

// W is the wildcard step.
func W() Step { return Step{Wild: true} }

// D is the recursive-descent step.
func D() Step { return Step{Desc: true} }

// Node is a script tree: an operator with operands, a constant or a path.
type Node struct {
	Op    string `json:"op,omitempty"`
	L     *Node  `json:"l,omitempty"`
	R     *Node  `json:"r,omitempty"`
	Path  *Path  `json:"p,omitempty"`
	Const *VSpec `json:"c,omitempty"`
}

// C is a constant leaf.
func C(v any) *Node { s := Spec(v); return &Node{Const: &s} }

// P is a path leaf relative to the current element.
func P(steps ...Step) *Node { return &Node{Path: &Path{Steps: steps}} }

// RP is a path leaf relative to the root.
func RP(steps ...Step) *Node { return &Node{Path: &Path{Root: true, Steps: steps}} }

// B is a binary operator node, N1 a unary one.
func B(op string, l, r *Node) *Node { return &Node{Op: op, L: l, R: r} }

// N1 is a unary operator node.
func N1(op string, l *Node) *Node { return &Node{Op: op, L: l} }

// Leaf reports whether the node is a constant or a path.
func (n *Node) Leaf() bool { return n.Op == "" }

// Unary reports whether the operator takes one operand.
func Unary(op string) bool { return op == "!" || op == "length" || op == "count" }

// Ops lists every built-in operator of the script language.
var Ops = []string{"==", "!=", "<", ">", "<=", ">=", "||", "&&", "!", "+", "-", "*", "/",
	"in", "empty", "has", "exists", "~=", "length", "count", "match", "search"}

// ---------------------------------------------------------------- paths

// Select returns the values the path selects; ok is false when a nested
// filter had an open (U) verdict so the selection is not determined.
func (p *Path) Select(cur, root any) (out []any, ok bool) {
	set := []any{cur}
	if p.Root {
		set = []any{root}
	}
	ok = true
	for _, st := range p.Steps {
		var next []any
		for _, v := range set {
			switch {
			case st.Key != nil:
				if m, is := v.(map[string]any); is {
					if c, has := m[string(*st.Key)]; has {
						next = append(next, c)
					}
				}
			case st.Idx != nil:
				if l, is := v.([]any); is {
					i := *st.Idx
					if i < 0 {
						i += len(l)
					}
					if 0 <= i && i < len(l) {
						next = append(next, l[i])
					}
				}
			case st.Wild:
				next = append(next, children(v)...)
			case st.Desc:
				next = append(next, descendants(v)...)
			case st.Filter != nil:
				for _, c := range children(v) {
					switch Eval(st.Filter, c, root) {
					case T:
						next = append(next, c)
					case U:
						ok = false
					}
				}
			}
		}
		set = next
	}
	return set, ok
}

func children(v any) []any {
	switch t := v.(type) {
	case []any:
		return t
	case map[string]any:
		keys := make([]string, 0, len(t))
		for k := range t {
			keys = append(keys, k)
		}
		sort.Strings(keys)
		out := make([]any, 0, len(t))
		for _, k := range keys {
			out = append(out, t[k])
		}
		return out
	}
	return nil
}

func descendants(v any) []any {
	out := []any{v}
	for _, c := range children(v) {
		out = append(out, descendants(c)...)
	}
	return out
}

// ---------------------------------------------------------------- values

// Res is the value of a sub-script: a definite value or "anything".
type Res struct {
	Any bool
	V   any
}

var anyRes = Res{Any: true}

func val(v any) Res { return Res{V: v} }

func tri(b bool) Tri {
	if b {
		return T
	}
	return F
}

func triRes(t Tri) Res {
	if t == U {
		return anyRes
	}
	return val(t == T)
}

// Kind names the kind of a value; int and float are both "number" for
// comparison purposes but are reported separately.
func Kind(v any) string {
	switch v.(type) {
	case nil:
		return "nil"
	case bool:
		return "bool"
	case int64:
		return "int"
	case float64:
		return "float"
	case string:
		return "string"
	case []any:
		return "list"
	case map[string]any:
		return "map"
	case Nothing:
		return "nothing"
	case Regex:
		return "regex"
	}
	return "?"
}

func isNum(v any) bool {
	switch v.(type) {
	case int64, float64:
		return true
	}
	return false
}

func toF(v any) float64 {
	if i, ok := v.(int64); ok {
		return float64(i)
	}
	return v.(float64)
}

// cmpNum compares two numbers by value: -1, 0, 1.
func cmpNum(a, b any) int {
	ai, aInt := a.(int64)
	bi, bInt := b.(int64)
	if aInt && bInt {
		switch {
		case ai < bi:
			return -1
		case ai > bi:
			return 1
		}
		return 0
	}
	af, bf := toF(a), toF(b)
	switch {
	case af < bf:
		return -1
	case af > bf:
		return 1
	}
	return 0
}

// looseEqual is structural equality with numbers compared by value.
func looseEqual(a, b any) bool {
	if isNum(a) && isNum(b) {
		return cmpNum(a, b) == 0
	}
	switch ta := a.(type) {
	case nil:
		return b == nil
	case bool:
		tb, ok := b.(bool)
		return ok && ta == tb
	case string:
		tb, ok := b.(string)
		return ok && ta == tb
	case Nothing:
		_, ok := b.(Nothing)
		return ok
	case Regex:
		tb, ok := b.(Regex)
		return ok && ta == tb
	case []any:
		tb, ok := b.([]any)
		if !ok || len(ta) != len(tb) {
			return false
		}
		for i := range ta {
			if !looseEqual(ta[i], tb[i]) {
				return false
			}
		}
		return true
	case map[string]any:
		tb, ok := b.(map[string]any)
		if !ok || len(ta) != len(tb) {
			return false
		}
		for k, v := range ta {
			w, has := tb[k]
			if !has || !looseEqual(v, w) {
				return false
			}
		}
		return true
	}
	return false
}

func container(v any) bool {
	switch v.(type) {
	case []any, map[string]any, Regex:
		return true
	}
	return false
}

// Equal is the == of the statement: numbers by value across int and float,
// scalars by value, Nothing equals only Nothing, mismatched kinds unequal,
// a container is unequal to everything that is not structurally the same
// container; whether two structurally equal containers are == is left open.
func Equal(a, b any) Tri {
	if container(a) || container(b) {
		if looseEqual(a, b) {
			return U
		}
		return F
	}
	return tri(looseEqual(a, b))
}

// memberEqual is the equality used by `in`. The documentation only says
// "left is in right": exact scalars are definite, an int/float pair with the
// same value and structurally equal containers are left open.
func memberEqual(a, b any) Tri {
	if isNum(a) && isNum(b) && Kind(a) != Kind(b) {
		if cmpNum(a, b) == 0 {
			return U
		}
		return F
	}
	return Equal(a, b)
}

// Order evaluates <, >, <=, >= : numbers by value, strings lexically,
// different kinds false, same unordered kind open.
func Order(op string, a, b any) Tri {
	var c int
	switch {
	case isNum(a) && isNum(b):
		c = cmpNum(a, b)
	case Kind(a) == "string" && Kind(b) == "string":
		as, bs := a.(string), b.(string)
		switch {
		case as < bs:
			c = -1
		case as > bs:
			c = 1
		}
	case Kind(a) != Kind(b):
		return F
	default:
		return U
	}
	switch op {
	case "<":
		return tri(c < 0)
	case ">":
		return tri(c > 0)
	case "<=":
		return tri(c <= 0)
	}
	return tri(c >= 0)
}

func truthy(r Res) Tri {
	if r.Any {
		return U
	}
	b, ok := r.V.(bool)
	return tri(ok && b)
}

func and3(a, b Tri) Tri {
	switch {
	case a == F || b == F:
		return F
	case a == T && b == T:
		return T
	}
	return U
}

func or3(a, b Tri) Tri {
	switch {
	case a == T || b == T:
		return T
	case a == F && b == F:
		return F
	}
	return U
}

func not3(a Tri) Tri {
	switch a {
	case T:
		return F
	case F:
		return T
	}
	return U
}

func arith(op string, a, b any) Res {
	if !isNum(a) || !isNum(b) {
		return anyRes // the documentation defines arithmetic on numbers only
	}
	ai, aInt := a.(int64)
	bi, bInt := b.(int64)
	if aInt && bInt {
		switch op {
		case "+":
			return val(ai + bi)
		case "-":
			return val(ai - bi)
		case "*":
			return val(ai * bi)
		}
		if bi == 0 || ai%bi != 0 {
			return anyRes // division by zero / truncating vs exact quotient: open
		}
		return val(ai / bi)
	}
	af, bf := toF(a), toF(b)
	switch op {
	case "+":
		return val(af + bf)
	case "-":
		return val(af - bf)
	case "*":
		return val(af * bf)
	}
	if bf == 0 {
		return anyRes
	}
	return val(af / bf)
}

func size(v any) (int64, bool) {
	switch t := v.(type) {
	case string:
		return int64(len(t)), true
	case []any:
		return int64(len(t)), true
	case map[string]any:
		return int64(len(t)), true
	}
	return 0, false
}

func regexOp(op string, a, b any) Res {
	ls, lok := a.(string)
	switch op {
	case "~=":
		if !lok {
			return val(false) // "true if left is a string and matches"
		}
		var src string
		switch t := b.(type) {
		case string:
			src = t
		case Regex:
			src = string(t)
		default:
			return anyRes
		}
		rx, err := regexp.Compile(src)
		if err != nil {
			return anyRes
		}
		return val(rx.MatchString(ls))
	}
	// match / search
	if !lok {
		return val(Nothing{}) // documented: not a string or missing -> Nothing
	}
	rs, rok := b.(string)
	if !rok || rs == "" {
		return anyRes // "regex string": other kinds and the empty pattern are left open
	}
	if op == "match" {
		rs = "^(?:" + rs + ")$"
	}
	rx, err := regexp.Compile(rs)
	if err != nil {
		return anyRes
	}
	return val(rx.MatchString(ls))
}

// Apply evaluates one operator on definite operand values.
func Apply(op string, a, b any) Res {
	switch op {
	case "==":
		return triRes(Equal(a, b))
	case "!=":
		return triRes(not3(Equal(a, b)))
	case "<", ">", "<=", ">=":
		return triRes(Order(op, a, b))
	case "&&":
		return triRes(and3(truthy(val(a)), truthy(val(b))))
	case "||":
		return triRes(or3(truthy(val(a)), truthy(val(b))))
	case "!":
		if x, ok := a.(bool); ok {
			return val(!x)
		}
		return anyRes // "inverts the boolean value": undefined for non-booleans
	case "+", "-", "*", "/":
		return arith(op, a, b)
	case "in":
		list, ok := b.([]any)
		if !ok {
			return anyRes // "right must be an array"
		}
		r := F
		for _, e := range list {
			r = or3(r, memberEqual(a, e))
		}
		return triRes(r)
	case "empty":
		want, ok := b.(bool)
		n, sized := size(a)
		if !ok || !sized {
			return anyRes // right must be a boolean; emptiness of scalars is undefined
		}
		return val(want == (n == 0))
	case "has", "exists":
		want, ok := b.(bool)
		if !ok || a == nil {
			return anyRes // right must be a boolean; null may or may not count as missing
		}
		_, missing := a.(Nothing)
		return val(want == !missing)
	case "~=", "match", "search":
		return regexOp(op, a, b)
	case "length":
		if n, ok := size(a); ok {
			return val(n)
		}
		return val(Nothing{})
	}
	panic("scriptref: unknown operator " + op)
}

// ---------------------------------------------------------------- scripts

type env map[*Node]any

func eval(n *Node, e env, cur, root any) Res {
	switch {
	case n.Const != nil:
		return val(n.Const.Value())
	case n.Path != nil:
		v, ok := e[n]
		if !ok {
			return anyRes
		}
		return val(v)
	}
	if n.Op == "count" {
		if n.L == nil || n.L.Path == nil {
			return anyRes // count is documented for paths only
		}
		vs, ok := n.L.Path.Select(cur, root)
		if !ok {
			return anyRes
		}
		return val(int64(len(vs)))
	}
	l := eval(n.L, e, cur, root)
	var r Res
	if !Unary(n.Op) {
		r = eval(n.R, e, cur, root)
	}
	// Operators that are determined even when an operand is open.
	switch n.Op {
	case "&&":
		return triRes(and3(truthy(l), truthy(r)))
	case "||":
		return triRes(or3(truthy(l), truthy(r)))
	}
	if l.Any || r.Any {
		return anyRes
	}
	return Apply(n.Op, l.V, r.V)
}

// pathLeaves lists the path leaves below n that are expanded per value
// (the direct operand of count is taken as a whole list instead).
func pathLeaves(n *Node, out []*Node) []*Node {
	if n == nil {
		return out
	}
	if n.Path != nil {
		return append(out, n)
	}
	if n.Op == "count" {
		return out
	}
	out = pathLeaves(n.L, out)
	return pathLeaves(n.R, out)
}

// anyCombo evaluates n for every combination of the values its paths select
// and reports T if some combination is true.
func anyCombo(n *Node, cur, root any) Tri {
	leaves := pathLeaves(n, nil)
	vals := make([][]any, len(leaves))
	open := false
	for i, lf := range leaves {
		vs, ok := lf.Path.Select(cur, root)
		if !ok {
			open = true
		}
		if len(vs) == 0 {
			vs = []any{Nothing{}}
		}
		vals[i] = vs
	}
	res := F
	idx := make([]int, len(leaves))
	for {
		e := env{}
		for i, lf := range leaves {
			e[lf] = vals[i][idx[i]]
		}
		res = or3(res, truthy(eval(n, e, cur, root)))
		k := 0
		for ; k < len(idx); k++ {
			idx[k]++
			if idx[k] < len(vals[k]) {
				break
			}
			idx[k] = 0
		}
		if k == len(idx) {
			break
		}
	}
	if open && res != T {
		return U
	}
	return res
}

// local evaluates with the "any value" rule applied per atom (maximal
// sub-script without && || !) and the logic operators applied on top.
func local(n *Node, cur, root any) Tri {
	switch n.Op {
	case "&&":
		return and3(local(n.L, cur, root), local(n.R, cur, root))
	case "||":
		return or3(local(n.L, cur, root), local(n.R, cur, root))
	case "!":
		if n.L.Leaf() || !boolOp(n.L.Op) {
			return anyCombo(n, cur, root)
		}
		return not3(local(n.L, cur, root))
	}
	return anyCombo(n, cur, root)
}

func boolOp(op string) bool {
	switch op {
	case "+", "-", "*", "/", "length", "count":
		return false
	}
	return true
}

// Eval is the truth value of the script for the element cur (root is what $
// refers to). A multi-valued path makes the script true when some combination
// of its values does; where "per whole script" and "per comparison" readings
// of that rule differ the answer is U. A script whose top-level result is not
// a boolean by construction (a bare operand, arithmetic, length, count) is
// outside the statement: U. Below && and || a non-boolean is "not true".
func Eval(n *Node, cur, root any) Tri {
	if n.Leaf() || !boolOp(n.Op) {
		return U
	}
	n = clone(n) // a sub-tree shared by two operands is two independent occurrences
	g := anyCombo(n, cur, root)
	if l := local(n, cur, root); l != g {
		return U
	}
	return g
}

// Value evaluates a script whose paths are all single-valued to its value
// (used to build probes for the value-returning operators). ok is false if a
// path is multi-valued or the value is open.
func Value(n *Node, cur, root any) (any, bool) {
	n = clone(n)
	e := env{}
	for _, lf := range pathLeaves(n, nil) {
		vs, ok := lf.Path.Select(cur, root)
		if !ok || len(vs) > 1 {
			return nil, false
		}
		if len(vs) == 0 {
			e[lf] = Nothing{}
		} else {
			e[lf] = vs[0]
		}
	}
	r := eval(n, e, cur, root)
	return r.V, !r.Any
}

// clone copies the operator/leaf nodes (constants and paths are immutable and
// stay shared) so that every occurrence of a path is a distinct leaf.
func clone(n *Node) *Node {
	if n == nil {
		return nil
	}
	c := *n
	c.L, c.R = clone(n.L), clone(n.R)
	return &c
}
