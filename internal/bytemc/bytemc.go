// Package bytemc is the explicit-state explorer for ojg's byte state machines
// (engine S1 of DESIGN.md): breadth-first search over the product of the real
// machine's abstract control state and the jsonref pushdown recogniser, all 256
// byte values (plus a few macro inputs that reach counter-guarded states) from
// every state, up to a nesting bound.
package bytemc

import (
	"fmt"
	"sort"
	"strings"

	"verif/internal/mach"
	"verif/internal/ref/jsonref"
)

// State is one product state with the witness that reaches it.
type State struct {
	ID      int
	Witness []byte
	Ref     *jsonref.PDA
	Key     string // implementation abstract key
	EOFOut  *mach.Out
	Level   int
	Stale   string
	// Alts are further witnesses that reach the same abstract state with a
	// different stale fingerprint (merge audit).
	Alts  [][]byte
	stale map[string]bool
}

// Sym is one input symbol: a byte, or a macro (several bytes that only matter
// as a whole because they drive a counter past a threshold).
type Sym struct {
	Bytes []byte
	Macro string // "" for single bytes
}

func (s Sym) String() string {
	if s.Macro != "" {
		return "<" + s.Macro + ">"
	}
	return ByteName(s.Bytes[0])
}

// Trans is one executed transition.
type Trans struct {
	From      *State
	Sym       Sym
	Input     []byte
	Out       *mach.Out // reader run, bytewise
	ImplDead  bool      // implementation returned an error on the last byte of Sym
	ImplEarly bool      // implementation failed before the last byte (harness inconsistency unless macro)
	Key       string    // implementation key after (when alive)
	Ref       *jsonref.PDA
	To        *State // nil when not expanded (divergent, dead or beyond the bound)
}

// Macros drive counters past the thresholds the code compares against.
var Macros = []Sym{
	{Bytes: []byte("999999999999999999"), Macro: "n18"},
	{Bytes: []byte("000000000000000000"), Macro: "z18"},
	{Bytes: []byte("999"), Macro: "n3"},
}

// Explorer runs the BFS.
type Explorer struct {
	M        *mach.M
	Cfg      mach.Config
	D        int  // nesting bound
	NoRef    bool // do not prune on reference death (SEN machines)
	States   []*State
	index    map[string]*State
	pending  []auditItem
	NTrans   int64
	NRuns    int64
	CutDepth int64
	// OnTrans is called for every executed transition.
	OnTrans func(t *Trans)
	// OnState is called once per new state (after its EOF verdict is known).
	OnState func(s *State)
	// Stop is polled; true ends the search early (deadline).
	Stop func() bool
	// Expand decides whether a (both-alive) target is expanded; nil = always.
	Harness   []string
	MaxStates int
	// Alt is the number of alternative witnesses (distinct stale fingerprints) kept
	// per state for the merge audit; 0 disables it.
	Alt int
	// OnAudit is called when an alternative witness of a state behaves differently
	// from its primary witness for a symbol (the abstract key is too coarse here:
	// control flow depends on a field it treats as dead).
	OnAudit         func(s *State, alt []byte, sym Sym, primary, got string)
	Audits          int64
	AuditMismatches int64
}

// Run performs the search.
func (e *Explorer) Run() {
	e.index = map[string]*State{}
	root := &State{Ref: &jsonref.PDA{}}
	o := e.M.Feed(nil, e.Cfg, true, false)
	e.NRuns++
	root.Key = lastKey(o)
	root.EOFOut = o
	e.add(root)
	next := 0
	for {
		for ; next < len(e.States); next++ {
			if e.Stop != nil && e.Stop() {
				return
			}
			if e.MaxStates > 0 && len(e.States) >= e.MaxStates {
				return
			}
			s := e.States[next]
			for b := 0; b < 256; b++ {
				e.step(s, Sym{Bytes: []byte{byte(b)}})
			}
			for _, mc := range Macros {
				e.step(s, mc)
			}
		}
		if len(e.pending) == 0 {
			return
		}
		// merge audit of the alternative witnesses collected so far; it may add states
		items := e.pending
		e.pending = nil
		for _, it := range items {
			if e.Stop != nil && e.Stop() {
				return
			}
			e.audit(it.s, it.alt)
		}
	}
}

type auditItem struct {
	s   *State
	alt []byte
}

func lastStale(o *mach.Out) string {
	if len(o.Stales) == 0 {
		return ""
	}
	return o.Stales[len(o.Stales)-1]
}

// audit re-runs every single-byte symbol from each alternative witness of s
// and compares (dead?, successor key) with what the primary witness gave.
// A successor with an unseen key becomes a state of its own, so behaviour
// that hides behind a stale field is explored and not just flagged.
func (e *Explorer) audit(s *State, alt []byte) {
	{
		for b := 0; b < 256; b++ {
			sym := Sym{Bytes: []byte{byte(b)}}
			input := append(append(make([]byte, 0, len(alt)+1), alt...), byte(b))
			o := e.M.FeedFrom(mach.Bytewise(input), e.Cfg, true, false, len(input))
			e.NRuns++
			e.Audits++
			got := "dead"
			n := len(input)
			switch {
			case o.Panic != nil:
				got = "panic"
			case !o.Failed() || o.ErrChunk >= n:
				got = lastKey(o)
			}
			pin := append(append(make([]byte, 0, len(s.Witness)+1), s.Witness...), byte(b))
			po := e.M.FeedFrom(mach.Bytewise(pin), e.Cfg, true, false, len(pin))
			e.NRuns++
			want := "dead"
			switch {
			case po.Panic != nil:
				want = "panic"
			case !po.Failed() || po.ErrChunk >= len(pin):
				want = lastKey(po)
			}
			if got == want {
				// same behaviour; the stale field may travel on: hand the
				// successor an alternative witness too
				if got != "dead" && got != "panic" {
					ref := s.Ref.Clone()
					ref.Step(byte(b))
					if to, ok := e.index[e.ident(got, ref)]; ok && to != s {
						st := lastStale(o)
						if len(to.Alts) < e.Alt && st != to.Stale && !to.stale[st] {
							if to.stale == nil {
								to.stale = map[string]bool{}
							}
							to.stale[st] = true
							to.Alts = append(to.Alts, input)
							e.pending = append(e.pending, auditItem{to, input})
						}
					}
				}
				continue
			}
			e.AuditMismatches++
			if e.OnAudit != nil {
				e.OnAudit(s, alt, sym, want, got)
			}
			if got == "dead" {
				continue
			}
			ref := s.Ref.Clone()
			ref.Step(byte(b))
			t := &Trans{From: s, Sym: sym, Input: input, Out: o, Ref: ref, Key: got}
			if got == "panic" {
				t.Key = ""
			} else if (e.NoRef || ref.Alive()) && (e.NoRef || ref.Depth() <= e.D) {
				k := e.ident(got, ref)
				if to, ok := e.index[k]; ok {
					t.To = to
				} else {
					to = &State{Witness: input, Ref: ref, Key: got, EOFOut: o, Level: s.Level + 1, Stale: lastStale(o)}
					e.add(to)
					t.To = to
				}
			}
			e.NTrans++
			if e.OnTrans != nil {
				e.OnTrans(t)
			}
		}
	}
}

func lastKey(o *mach.Out) string {
	if len(o.Keys) == 0 {
		return "?"
	}
	return o.Keys[len(o.Keys)-1]
}

func (e *Explorer) add(s *State) {
	s.ID = len(e.States)
	e.States = append(e.States, s)
	e.index[e.ident(s.Key, s.Ref)] = s
	if e.OnState != nil {
		e.OnState(s)
	}
}

// ident is the identity of a product state; without a reference (SEN
// machines) the implementation key alone identifies it.
func (e *Explorer) ident(key string, ref *jsonref.PDA) string {
	if e.NoRef {
		return key
	}
	return key + " || " + ref.Key()
}

func (e *Explorer) step(s *State, sym Sym) {
	input := make([]byte, 0, len(s.Witness)+len(sym.Bytes))
	input = append(append(input, s.Witness...), sym.Bytes...)
	o := e.M.FeedFrom(mach.Bytewise(input), e.Cfg, true, false, len(input))
	e.NRuns++
	e.NTrans++
	t := &Trans{From: s, Sym: sym, Input: input, Out: o}
	t.Ref = s.Ref.Clone()
	for _, b := range sym.Bytes {
		t.Ref.Step(b)
	}
	n := len(input)
	switch {
	case !o.Failed():
		t.Key = lastKey(o)
	case o.ErrChunk >= n: // failed at end of input only
		t.Key = lastKey(o)
	case o.ErrChunk == n-1:
		t.ImplDead = true
	default:
		t.ImplDead, t.ImplEarly = true, true
		if sym.Macro == "" {
			e.Harness = append(e.Harness, fmt.Sprintf("%s: witness %q died at chunk %d before the new byte", e.M.Name, input, o.ErrChunk))
		}
	}
	expand := !t.ImplDead && (e.NoRef || t.Ref.Alive()) && (e.NoRef || t.Ref.Depth() <= e.D)
	if expand && e.NoRef && depthOfKey(t.Key) > e.D {
		expand = false
	}
	if !t.ImplDead && !e.NoRef && t.Ref.Alive() && t.Ref.Depth() > e.D {
		e.CutDepth++
	}
	if expand {
		k := e.ident(t.Key, t.Ref)
		st := lastStale(o)
		if to, ok := e.index[k]; ok {
			t.To = to
			if e.Alt > 0 && len(to.Alts) < e.Alt && st != to.Stale && !to.stale[st] {
				if to.stale == nil {
					to.stale = map[string]bool{}
				}
				to.stale[st] = true
				to.Alts = append(to.Alts, input)
				e.pending = append(e.pending, auditItem{to, input})
			}
		} else {
			to = &State{Witness: input, Ref: t.Ref, Key: t.Key, EOFOut: o, Level: s.Level + 1, Stale: st}
			e.add(to)
			t.To = to
		}
	}
	if e.OnTrans != nil {
		e.OnTrans(t)
	}
}

// depthOfKey reads the open-container count out of an abstract key ("s=[{[").
func depthOfKey(k string) int {
	i := strings.Index(k, " s=")
	if i < 0 {
		return 0
	}
	rest := k[i+3:]
	if j := strings.IndexByte(rest, ' '); j >= 0 {
		rest = rest[:j]
	}
	return len(rest)
}

// ModeOfKey extracts the leading mode name (without nextMode / ri) of a key.
func ModeOfKey(k string) string {
	end := len(k)
	for i := 0; i < len(k); i++ {
		if k[i] == ' ' || k[i] == '>' || k[i] == '#' {
			end = i
			break
		}
	}
	return k[:end]
}

// ByteName renders a byte for signatures.
func ByteName(b byte) string {
	switch {
	case b == ' ':
		return "SP"
	case b == '|':
		return "PIPE"
	case b > 0x20 && b < 0x7f:
		return string(rune(b))
	}
	return fmt.Sprintf("x%02X", b)
}

// ByteSet renders a set of bytes as ranges.
func ByteSet(bs []byte) string {
	sort.Slice(bs, func(i, j int) bool { return bs[i] < bs[j] })
	var parts []string
	for i := 0; i < len(bs); {
		j := i
		for j+1 < len(bs) && bs[j+1] == bs[j]+1 {
			j++
		}
		if j-i >= 2 {
			parts = append(parts, ByteName(bs[i])+".."+ByteName(bs[j]))
		} else {
			for k := i; k <= j; k++ {
				parts = append(parts, ByteName(bs[k]))
			}
		}
		i = j + 1
	}
	return strings.Join(parts, ",")
}

// Complete returns bytes that turn the reference state into an accepting one
// (shortest obvious completion); ok is false for a dead state.
func Complete(p *jsonref.PDA) (out []byte, ok bool) {
	if !p.Alive() {
		return nil, false
	}
	q := p.Clone()
	emit := func(s string) {
		for i := 0; i < len(s); i++ {
			q.Step(s[i])
		}
		out = append(out, s...)
	}
	for guard := 0; guard < 200 && !q.Accepting(); guard++ {
		switch q.M {
		case jsonref.Start, jsonref.Value:
			emit("1")
		case jsonref.Bom1:
			emit("\xBB")
		case jsonref.Bom2:
			emit("\xBF")
		case jsonref.ValueOrClose:
			emit("]")
		case jsonref.After:
			if q.Stack[len(q.Stack)-1] == '[' {
				emit("]")
			} else {
				emit("}")
			}
		case jsonref.Key1:
			emit("}")
		case jsonref.Key:
			emit("\"k\"")
		case jsonref.Colon:
			emit(":")
		case jsonref.Str:
			emit("\"")
		case jsonref.Esc:
			emit("n")
		case jsonref.U:
			emit("0")
		case jsonref.Lit:
			emit(q.Word[q.WI:])
		case jsonref.Neg, jsonref.Dot, jsonref.E, jsonref.ESign:
			emit("1")
		case jsonref.Zero, jsonref.Int, jsonref.Frac, jsonref.Exp:
			if q.Stack[len(q.Stack)-1] == '[' {
				emit("]")
			} else {
				emit("}")
			}
		default:
			return nil, false
		}
	}
	return out, q.Accepting()
}
