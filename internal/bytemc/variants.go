package bytemc

import "verif/internal/ref/jsonref"

// Insertions are the whitespace strings placed at inter-token positions.
var Insertions = []string{" ", "\n", "\n ", " \n", "\r\n", "\n\n"}

func interToken(m jsonref.Mode) bool {
	switch m {
	case jsonref.Start, jsonref.Value, jsonref.ValueOrClose, jsonref.After, jsonref.Key1, jsonref.Key, jsonref.Colon:
		return true
	}
	return false
}

func numberEnd(m jsonref.Mode) bool {
	switch m {
	case jsonref.Zero, jsonref.Int, jsonref.Frac, jsonref.Exp:
		return true // whitespace here terminates the number
	}
	return false
}

// WSPositions returns the offsets of w (0..len) at which whitespace may be
// inserted without changing what the text denotes (between tokens, and after a
// trailing number).
func WSPositions(w []byte) []int {
	var out []int
	p := &jsonref.PDA{}
	for i := 0; i <= len(w); i++ {
		if interToken(p.M) || (i == len(w) && numberEnd(p.M)) {
			out = append(out, i)
		}
		if i < len(w) {
			p.Step(w[i])
		}
	}
	return out
}

// InsertAt returns w with s inserted at offset pos.
func InsertAt(w []byte, pos int, s string) []byte {
	out := make([]byte, 0, len(w)+len(s))
	out = append(out, w[:pos]...)
	out = append(out, s...)
	return append(out, w[pos:]...)
}

// OneInsertion returns w and every variant of w with one whitespace string
// inserted at one inter-token position.
func OneInsertion(w []byte) [][]byte {
	out := [][]byte{w}
	for _, p := range WSPositions(w) {
		for _, ins := range Insertions {
			out = append(out, InsertAt(w, p, ins))
		}
	}
	return out
}
