package bytemc

import (
	"verif/internal/mach"
)

// probeReps are the continuation bytes tried from a divergent state.
var probeReps = []byte("]},:\" 10ae.-lursfn\n[{")

// ProbeResult classifies what a divergent prefix (accepted by the
// implementation, rejected by the reference) leads to.
type ProbeResult struct {
	Accepted   []byte // a complete input the implementation accepts (nil = none found)
	Panicked   []byte // an input on which the implementation panics
	PanicValue any
	Runs       int
}

// Probe searches extensions of prefix (breadth-first, deduplicated on the
// implementation key, depth <= maxDepth) for an input the implementation
// accepts at end of input, and for panics on the way.
func Probe(m *mach.M, cfg mach.Config, prefix []byte, maxDepth, maxRuns int) *ProbeResult {
	res := &ProbeResult{}
	type node struct {
		in    []byte
		depth int
	}
	seen := map[string]bool{}
	queue := []node{{in: prefix}}
	first := true
	for len(queue) > 0 && res.Runs < maxRuns {
		n := queue[0]
		queue = queue[1:]
		o := m.FeedFrom(mach.Bytewise(n.in), cfg, true, false, len(n.in))
		res.Runs++
		if o.Panic != nil {
			if res.Panicked == nil {
				res.Panicked, res.PanicValue = n.in, o.Panic
			}
			continue
		}
		if o.Err == nil {
			if res.Accepted == nil {
				res.Accepted = n.in
			}
			if res.Panicked != nil || n.depth >= 3 {
				return res
			}
		} else if o.ErrChunk < len(n.in) {
			continue // died before the end: no extension can help
		}
		k := lastKey(o)
		if seen[k] && !first {
			continue
		}
		first = false
		seen[k] = true
		if n.depth >= maxDepth {
			continue
		}
		for _, b := range probeReps {
			in := make([]byte, 0, len(n.in)+1)
			in = append(append(in, n.in...), b)
			queue = append(queue, node{in: in, depth: n.depth + 1})
		}
	}
	return res
}
