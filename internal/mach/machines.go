package mach

import (
	"encoding/json"
	"io"

	"github.com/ohler55/ojg/alt"
	"github.com/ohler55/ojg/gen"
	"github.com/ohler55/ojg/oj"
	"github.com/ohler55/ojg/sen"
)

func jsonNumber(s string) any { return json.Number(s) }

func multiArgs(cfg Config, o *Out) (args []any, finish func()) {
	if !cfg.Multi {
		return nil, func() {}
	}
	if cfg.Chan {
		ch := make(chan any, 1024)
		return []any{ch}, func() {
			close(ch)
			for v := range ch {
				o.Docs = append(o.Docs, v)
			}
		}
	}
	return []any{func(v any) bool { o.Docs = append(o.Docs, v); return false }}, func() {}
}

// OjParser is oj.Parser (ParseReader / Parse).
func OjParser() *M {
	m := newM("oj.Parser", "oj", true)
	m.run = func(m *M, r io.Reader, cfg Config, o *Out, inst *any) {
		p := &oj.Parser{}
		*inst = p
		args, fin := multiArgs(cfg, o)
		o.Result, o.Err = p.ParseReader(r, args...)
		fin()
	}
	m.whole = func(m *M, data []byte, cfg Config, o *Out) {
		p := &oj.Parser{}
		args, fin := multiArgs(cfg, o)
		o.Result, o.Err = p.Parse(data, args...)
		fin()
	}
	return m
}

// OjValidator is oj.Validator in single-document mode unless cfg.Multi.
func OjValidator() *M {
	m := newM("oj.Validator", "oj", true)
	m.run = func(m *M, r io.Reader, cfg Config, o *Out, inst *any) {
		p := &oj.Validator{OnlyOne: !cfg.Multi}
		*inst = p
		o.Err = p.ValidateReader(r)
	}
	m.whole = func(m *M, data []byte, cfg Config, o *Out) {
		p := &oj.Validator{OnlyOne: !cfg.Multi}
		o.Err = p.Validate(data)
	}
	return m
}

// OjTokenizer is oj.Tokenizer with a recording handler.
func OjTokenizer() *M {
	m := newM("oj.Tokenizer", "oj", true)
	m.run = func(m *M, r io.Reader, cfg Config, o *Out, inst *any) {
		t := &oj.Tokenizer{}
		t.OnlyOne = !cfg.Multi
		*inst = t
		rec := &Rec{}
		o.Err = t.Load(r, rec)
		finishRec(rec, cfg, o)
	}
	m.whole = func(m *M, data []byte, cfg Config, o *Out) {
		t := &oj.Tokenizer{}
		t.OnlyOne = !cfg.Multi
		rec := &Rec{}
		o.Err = t.Parse(data, rec)
		finishRec(rec, cfg, o)
	}
	return m
}

func finishRec(rec *Rec, cfg Config, o *Out) {
	o.Events = rec.Events
	if o.Err == nil && rec.BErr != nil {
		o.Err = rec.BErr
	}
	if cfg.Multi {
		o.Docs = rec.Docs
	} else if len(rec.Docs) > 0 {
		o.Result = rec.Docs[0]
	}
}

func genArgs(cfg Config, o *Out) (args []any, finish func()) {
	if !cfg.Multi {
		return nil, func() {}
	}
	if cfg.Chan {
		ch := make(chan gen.Node, 1024)
		return []any{ch}, func() {
			close(ch)
			for v := range ch {
				o.Docs = append(o.Docs, simplify(v))
				o.GenDocs = append(o.GenDocs, Canon(nodeAny(v)))
			}
		}
	}
	return []any{func(v gen.Node) bool {
		o.Docs = append(o.Docs, simplify(v))
		o.GenDocs = append(o.GenDocs, Canon(nodeAny(v)))
		return false
	}}, func() {}
}

func nodeAny(n gen.Node) any {
	if n == nil {
		return nil
	}
	return n
}

func simplify(n gen.Node) any {
	if n == nil {
		return nil
	}
	return n.Simplify()
}

// GenParser is gen.Parser; results are simplified.
func GenParser() *M {
	m := newM("gen.Parser", "gen", true)
	m.run = func(m *M, r io.Reader, cfg Config, o *Out, inst *any) {
		p := &gen.Parser{}
		*inst = p
		args, fin := genArgs(cfg, o)
		var n gen.Node
		n, o.Err = p.ParseReader(r, args...)
		o.Result = simplify(n)
		o.GenCanon, o.HasGen = Canon(nodeAny(n)), true
		fin()
	}
	m.whole = func(m *M, data []byte, cfg Config, o *Out) {
		p := &gen.Parser{}
		args, fin := genArgs(cfg, o)
		var n gen.Node
		n, o.Err = p.Parse(data, args...)
		o.Result = simplify(n)
		o.GenCanon, o.HasGen = Canon(nodeAny(n)), true
		fin()
	}
	return m
}

// SenParser is sen.Parser.
func SenParser() *M {
	m := newM("sen.Parser", "sen", false)
	m.run = func(m *M, r io.Reader, cfg Config, o *Out, inst *any) {
		p := &sen.Parser{}
		*inst = p
		args, fin := multiArgs(cfg, o)
		o.Result, o.Err = p.ParseReader(r, args...)
		fin()
	}
	m.whole = func(m *M, data []byte, cfg Config, o *Out) {
		p := &sen.Parser{}
		args, fin := multiArgs(cfg, o)
		o.Result, o.Err = p.Parse(data, args...)
		fin()
	}
	return m
}

// SenTokenizer is sen.Tokenizer with a recording handler.
func SenTokenizer() *M {
	m := newM("sen.Tokenizer", "sen", false)
	m.run = func(m *M, r io.Reader, cfg Config, o *Out, inst *any) {
		t := &sen.Tokenizer{OnlyOne: !cfg.Multi}
		*inst = t
		rec := &Rec{}
		o.Err = t.Load(r, rec)
		finishRec(rec, cfg, o)
	}
	m.whole = func(m *M, data []byte, cfg Config, o *Out) {
		t := &sen.Tokenizer{OnlyOne: !cfg.Multi}
		rec := &Rec{}
		o.Err = t.Parse(data, rec)
		finishRec(rec, cfg, o)
	}
	return m
}

// Strict returns the five strict-JSON front-ends of C01 (the []byte and reader
// entry points of oj.Parser count as two front-ends sharing one machine).
func Strict() []*M { return []*M{OjParser(), OjValidator(), OjTokenizer(), GenParser()} }

// All returns all six machines.
func All() []*M {
	return []*M{OjParser(), OjValidator(), OjTokenizer(), GenParser(), SenParser(), SenTokenizer()}
}

// ByName finds a machine.
func ByName(n string) *M {
	for _, m := range All() {
		if m.Name == n {
			return m
		}
	}
	return nil
}

var _ = alt.Builder{}
