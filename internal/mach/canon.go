package mach

import (
	"encoding/json"
	"fmt"
	"math"
	"sort"
	"strconv"
	"strings"
	"time"

	"github.com/ohler55/ojg/gen"
)

// Canon renders a parse result (simple or gen form) as canonical text in
// which numbers keep their kind: i:<int64>, f:<float64 bits>, n:<big text>.
func Canon(v any) string {
	var b strings.Builder
	canon(&b, v, 0)
	return b.String()
}

// maxCanonDepth: no input of the checks nests deeper than a few hundred
// levels; a value deeper than this contains itself (a parser handed out the
// same container twice) and is rendered as such instead of overflowing the stack.
const maxCanonDepth = 2000

func canon(b *strings.Builder, v any, depth int) {
	if depth > maxCanonDepth {
		b.WriteString("<CYCLE: the value contains itself>")
		return
	}
	switch t := v.(type) {
	case nil:
		b.WriteString("null")
	case bool:
		b.WriteString(strconv.FormatBool(t))
	case gen.Bool:
		b.WriteString(strconv.FormatBool(bool(t)))
	case int64:
		fmt.Fprintf(b, "i:%d", t)
	case gen.Int:
		fmt.Fprintf(b, "i:%d", int64(t))
	case int:
		fmt.Fprintf(b, "i:%d", t)
	case float64:
		fmt.Fprintf(b, "f:%x", math.Float64bits(t))
	case gen.Float:
		fmt.Fprintf(b, "f:%x", math.Float64bits(float64(t)))
	case string:
		b.WriteString("s:" + strconv.Quote(t))
	case gen.String:
		b.WriteString("s:" + strconv.Quote(string(t)))
	case json.Number:
		b.WriteString("n:" + string(t))
	case gen.Big:
		b.WriteString("n:" + string(t))
	case time.Time:
		b.WriteString("t:" + t.Format(time.RFC3339Nano))
	case gen.Time:
		b.WriteString("t:" + time.Time(t).Format(time.RFC3339Nano))
	case []any:
		b.WriteByte('[')
		for i, e := range t {
			if i > 0 {
				b.WriteByte(',')
			}
			canon(b, e, depth+1)
		}
		b.WriteByte(']')
	case gen.Array:
		b.WriteByte('[')
		for i, e := range t {
			if i > 0 {
				b.WriteByte(',')
			}
			canon(b, e, depth+1)
		}
		b.WriteByte(']')
	case map[string]any:
		keys := make([]string, 0, len(t))
		for k := range t {
			keys = append(keys, k)
		}
		sort.Strings(keys)
		b.WriteByte('{')
		for i, k := range keys {
			if i > 0 {
				b.WriteByte(',')
			}
			b.WriteString(strconv.Quote(k) + ":")
			canon(b, t[k], depth+1)
		}
		b.WriteByte('}')
	case gen.Object:
		keys := make([]string, 0, len(t))
		for k := range t {
			keys = append(keys, k)
		}
		sort.Strings(keys)
		b.WriteByte('{')
		for i, k := range keys {
			if i > 0 {
				b.WriteByte(',')
			}
			b.WriteString(strconv.Quote(k) + ":")
			canon(b, t[k], depth+1)
		}
		b.WriteByte('}')
	default:
		fmt.Fprintf(b, "?%T(%v)", v, v)
	}
}

// Classes partitions the 256 byte values into classes of bytes that every
// table of the package maps to the same cell, with the bytes the code compares
// literally (letters of true/false/null, hex digits, signs, quote characters)
// kept apart. The partition is recomputed from the current tables on every
// run, so a mutated cell changes it. It returns one representative per class.
func (m *M) Classes() []byte {
	names := make([]string, 0, len(m.Tables))
	for n := range m.Tables {
		names = append(names, n)
	}
	sort.Strings(names)
	literal := "truefalsn0123456789abcdefABCDEF-+.eE\"'\\/*#$:,[]{}() \t\r\n\xef\xbb\xbf"
	seen := map[string]bool{}
	var reps []byte
	for b := 0; b < 256; b++ {
		var k strings.Builder
		for _, n := range names {
			t := m.Tables[n]
			if b < len(t) {
				k.WriteByte(t[b])
			}
		}
		if strings.IndexByte(literal, byte(b)) >= 0 {
			switch {
			case b >= '2' && b <= '8':
				k.WriteString("|digit")
			case b == 'c' || b == 'd':
				k.WriteString("|hexlow")
			case b >= 'A' && b <= 'D' || b == 'F':
				k.WriteString("|hexup")
			default:
				fmt.Fprintf(&k, "|%d", b)
			}
		}
		if !seen[k.String()] {
			seen[k.String()] = true
			reps = append(reps, byte(b))
		}
	}
	return reps
}
