// Package mach wraps the six byte state machines of ojg (oj.Parser,
// oj.Validator, oj.Tokenizer, gen.Parser, sen.Parser, sen.Tokenizer) behind one
// interface so the explorers can drive them through their public reader and
// []byte entry points with harness-chosen chunking and observe private state
// between chunks.
package mach

import (
	"errors"
	"fmt"
	"io"
	"reflect"
	"strings"

	"github.com/ohler55/ojg/alt"
	"github.com/ohler55/ojg/gen"
	"github.com/ohler55/ojg/oj"
	"github.com/ohler55/ojg/sen"
	"verif/internal/snap"
)

// Config selects single / multi document mode.
type Config struct {
	Multi       bool // deliver documents through a callback instead of OnlyOne
	Chan        bool // (Multi) deliver through a channel
	ReadErr     int  // >0: the Read call with this ordinal (1-based) fails with ErrInjected
	ZeroAt      int  // >0: a zero-length (0, nil) read is inserted before data read #ZeroAt
	EOFWithLast bool // deliver io.EOF together with the last chunk
}

// ErrInjected is the reader fault the harness injects.
var ErrInjected = errors.New("verif: injected read error")

// Out is what one execution produced.
type Out struct {
	Err       error
	Panic     any
	PanicSite string
	ErrChunk  int      // index of the chunk being consumed when the call returned an error; len(chunks) = at EOF; -1 no error
	Keys      []string // abstract key observed at each Read call (state after i chunks)
	KeyFrom   int
	Stales    []string // fingerprint of the fields the abstract key masks as dead (parallel to Keys)
	Snaps     []string // concrete live snapshot at each Read call (only when wanted)
	Result    any      // single-document result (simple form)
	Docs      []any    // documents delivered (multi mode)
	Events    []string // tokenizer events
	ReadCalls int
	GenCanon  string // canonical text of the gen result (gen.Parser only)
	HasGen    bool
	GenDocs   []string // canonical text of each gen document (multi mode)
}

// Failed reports error or panic.
func (o *Out) Failed() bool { return o.Err != nil || o.Panic != nil }

// M is one machine kind.
type M struct {
	Name   string
	Pkg    string // oj | gen | sen
	Strict bool   // strict JSON front-end (C01 / C09 apply)
	Tables map[string]string
	names  map[string]string // table content -> name
	// run executes through the reader entry point.
	run func(m *M, r io.Reader, cfg Config, o *Out, inst *any)
	// whole executes through the []byte entry point.
	whole func(m *M, data []byte, cfg Config, o *Out)
}

// ModeName maps table content to its name.
func (m *M) ModeName(content string) string {
	if content == "" {
		return "-"
	}
	if n, ok := m.names[content]; ok {
		return n
	}
	return fmt.Sprintf("?table(len=%d)", len(content))
}

type chunkReader struct {
	empty   int // consecutive calls with an empty buffer
	chunks  [][]byte
	i       int
	calls   int
	cfg     Config
	onRead  func()
	zeroed  bool
	eofSent bool
}

func (r *chunkReader) Read(p []byte) (int, error) {
	r.calls++
	if r.onRead != nil {
		r.onRead()
	}
	if r.cfg.ReadErr > 0 && r.calls == r.cfg.ReadErr {
		return 0, ErrInjected
	}
	if r.cfg.ZeroAt > 0 && !r.zeroed && r.i+1 == r.cfg.ZeroAt {
		r.zeroed = true
		return 0, nil
	}
	if len(p) == 0 && r.i < len(r.chunks) {
		// io.Reader: a read into an empty buffer returns 0, nil. A caller that
		// keeps asking with an empty buffer never gets anywhere: after 10000
		// such calls in a row the run is stopped and reported as not terminating.
		if r.empty++; r.empty > 10000 {
			panic("does not terminate: the reader was called 10000 times in a row with an empty buffer")
		}
		return 0, nil
	}
	r.empty = 0
	if r.i >= len(r.chunks) {
		r.eofSent = true
		return 0, io.EOF
	}
	n := copy(p, r.chunks[r.i])
	if n < len(r.chunks[r.i]) {
		// more than the caller's buffer holds: a reader fills the buffer and keeps the rest for the next call
		r.chunks[r.i] = r.chunks[r.i][n:]
		return n, nil
	}
	r.i++
	if r.cfg.EOFWithLast && r.i == len(r.chunks) {
		r.eofSent = true
		return n, io.EOF
	}
	return n, nil
}

// Feed runs the machine over the chunks through its reader entry point.
// wantKeys / wantSnaps select what is recorded at each Read call.
func (m *M) Feed(chunks [][]byte, cfg Config, wantKeys, wantSnaps bool) (o *Out) {
	return m.FeedFrom(chunks, cfg, wantKeys, wantSnaps, 0)
}

// FeedFrom is Feed recording keys / snapshots only once at least from chunks
// have been consumed (Keys[0] is then the state after from chunks).
func (m *M) FeedFrom(chunks [][]byte, cfg Config, wantKeys, wantSnaps bool, from int) (o *Out) {
	o = &Out{ErrChunk: -1}
	var inst any
	r := &chunkReader{chunks: append([][]byte{}, chunks...), cfg: cfg}
	if wantKeys || wantSnaps {
		r.onRead = func() {
			if inst == nil || r.i < from {
				return
			}
			if wantKeys {
				o.Keys = append(o.Keys, m.Key(inst))
				o.Stales = append(o.Stales, m.Stale(inst))
			}
			if wantSnaps {
				o.Snaps = append(o.Snaps, m.Snap(inst))
			}
		}
	}
	func() {
		defer func() {
			if p := recover(); p != nil {
				o.Panic = p
				o.PanicSite = snap.PanicSite()
			}
		}()
		m.run(m, r, cfg, o, &inst)
	}()
	o.ReadCalls = r.calls
	o.KeyFrom = from
	if o.Err != nil || o.Panic != nil {
		if r.eofSent && !(cfg.EOFWithLast) {
			o.ErrChunk = len(chunks)
		} else {
			o.ErrChunk = r.i - 1
		}
	}
	return o
}

// Whole runs the machine through its []byte entry point.
func (m *M) Whole(data []byte, cfg Config) (o *Out) {
	o = &Out{ErrChunk: -1}
	func() {
		defer func() {
			if p := recover(); p != nil {
				o.Panic = p
				o.PanicSite = snap.PanicSite()
			}
		}()
		m.whole(m, data, cfg, o)
	}()
	return o
}

// WholeSpare is Whole on a copy of data whose backing array continues with
// spare (exact: no spare capacity at all). len(data) is unchanged: a front-end
// that answers differently than for Whole looks at bytes it was not given.
func (m *M) WholeSpare(data, spare []byte, cfg Config) *Out {
	full := make([]byte, len(data)+len(spare))
	copy(full, data)
	copy(full[len(data):], spare)
	return m.Whole(full[:len(data)], cfg)
}

// SpareFor is the content put behind an input for WholeSpare: the bytes that
// would continue it most plausibly (comp, e.g. the rest of a literal and the
// closers), then a closing quote, closers and an 'e' run as a default.
func SpareFor(comp []byte) []byte {
	return append(append([]byte{}, comp...), []byte("e\"]}e e e e e e e e e e e e e e e e")...)
}

// Bytewise splits data into one-byte chunks.
func Bytewise(data []byte) [][]byte {
	out := make([][]byte, len(data))
	for i := range data {
		out[i] = data[i : i+1]
	}
	return out
}

func tables(pkg string) map[string]string {
	switch pkg {
	case "oj":
		return oj.VerifTables()
	case "gen":
		return gen.VerifTables()
	case "sen":
		return sen.VerifTables()
	}
	return nil
}

func newM(name, pkg string, strict bool) *M {
	m := &M{Name: name, Pkg: pkg, Strict: strict, Tables: tables(pkg), names: map[string]string{}}
	for n, c := range m.Tables {
		if n == "escByteMap" {
			continue
		}
		if old, dup := m.names[c]; dup && old < n {
			continue
		}
		m.names[c] = n
	}
	return m
}

// ---------------------------------------------------------------- events

// Rec is a TokenHandler that logs events and rebuilds the tree with alt.Builder.
type Rec struct {
	Events []string
	B      alt.Builder
	Docs   []any
	keys   []string // pending key per open object ("" marker for arrays)
	key    *string
	depth  int
	BErr   error
}

func (r *Rec) k() []string {
	if r.key != nil {
		k := *r.key
		r.key = nil
		return []string{k}
	}
	return nil
}

func (r *Rec) done() {
	if r.depth == 0 {
		r.Docs = append(r.Docs, r.B.Result())
		r.B.Reset()
	}
}

func (r *Rec) val(v any) {
	if err := r.B.Value(v, r.k()...); err != nil && r.BErr == nil {
		r.BErr = err
	}
	r.done()
}

func (r *Rec) Null()           { r.Events = append(r.Events, "null"); r.val(nil) }
func (r *Rec) Bool(b bool)     { r.Events = append(r.Events, fmt.Sprintf("bool:%v", b)); r.val(b) }
func (r *Rec) Int(i int64)     { r.Events = append(r.Events, fmt.Sprintf("int:%d", i)); r.val(i) }
func (r *Rec) Float(f float64) { r.Events = append(r.Events, fmt.Sprintf("float:%v", f)); r.val(f) }
func (r *Rec) Number(s string) { r.Events = append(r.Events, "number:"+s); r.val(jsonNumber(s)) }
func (r *Rec) String(s string) { r.Events = append(r.Events, fmt.Sprintf("string:%q", s)); r.val(s) }
func (r *Rec) Key(s string) {
	r.Events = append(r.Events, fmt.Sprintf("key:%q", s))
	c := s
	r.key = &c
}
func (r *Rec) ObjectStart() {
	r.Events = append(r.Events, "{")
	if err := r.B.Object(r.k()...); err != nil && r.BErr == nil {
		r.BErr = err
	}
	r.depth++
}
func (r *Rec) ObjectEnd() {
	r.Events = append(r.Events, "}")
	r.B.Pop()
	r.depth--
	r.done()
}
func (r *Rec) ArrayStart() {
	r.Events = append(r.Events, "[")
	if err := r.B.Array(r.k()...); err != nil && r.BErr == nil {
		r.BErr = err
	}
	r.depth++
}
func (r *Rec) ArrayEnd() {
	r.Events = append(r.Events, "]")
	r.B.Pop()
	r.depth--
	r.done()
}

// ---------------------------------------------------------------- keys

// numFlags abstracts gen.Number to what control flow can read.
func numFlags(inst any, live bool, mode string) string {
	if !live {
		return ""
	}
	f, ok := snap.Field(inst, "num")
	if !ok {
		return ""
	}
	n := f.Interface().(gen.Number)
	var b strings.Builder
	if len(n.BigBuf) > 0 {
		return "B" // every Add* appends to BigBuf first: nothing else is read
	}
	switch mode {
	case "digitMap", "negMap", "zeroMap":
		if gen.BigLimit < n.I {
			b.WriteString("I")
		}
	case "dotMap", "fracMap":
		if gen.BigLimit < n.Frac {
			b.WriteString("F")
		}
		if gen.BigLimit <= uint64(n.Div) {
			b.WriteString("D")
		}
	default:
		if 102 < n.Exp {
			b.WriteString("E")
		}
	}
	return b.String()
}

// stackShape abstracts the build stack to what add()/close can branch on: per
// open container (outermost first) 'a' / 'm', whether it already holds
// elements ('v') and whether a key is pending ('K'). It is recovered
// right-to-left from starts and the classes of the stack slots; a layout
// that does not parse yields a '!' (an invariant violation in itself).
func stackShape(inst any) string {
	f, ok := snap.Field(inst, "stack")
	if !ok {
		return ""
	}
	if f.Type().Elem().Kind() == reflect.Uint8 {
		return string(f.Bytes())
	}
	st, ok := snap.Field(inst, "starts")
	if !ok || st.Type().Elem().Kind() != reflect.Int {
		return "?"
	}
	class := func(i int) byte {
		e := f.Index(i)
		if e.Kind() == reflect.Interface {
			if e.IsNil() {
				return 'v'
			}
			switch e.Elem().Interface().(type) {
			case gen.Key:
				return 'K'
			case map[string]any, gen.Object:
				return 'm'
			}
		}
		return 'v'
	}
	pos := f.Len()
	var parts []string
	for j := st.Len() - 1; j >= 0; j-- {
		idx := int(st.Index(j).Int())
		if idx >= 0 {
			if idx >= pos {
				parts = append(parts, "!")
				break
			}
			p := "a"
			if idx+1 < pos {
				p = "av"
			}
			parts = append(parts, p)
			pos = idx
			continue
		}
		p := "m"
		if pos >= 1 && class(pos-1) == 'K' {
			p = "mK"
			pos--
		}
		if pos >= 1 && class(pos-1) == 'm' {
			pos--
		} else {
			p = "!" + p
		}
		parts = append(parts, p)
	}
	var b strings.Builder
	if pos > 0 {
		b.WriteString("v") // completed top-level value(s) below the open containers
		if pos > 1 {
			b.WriteString("+")
		}
	}
	for i := len(parts) - 1; i >= 0; i-- {
		b.WriteString(parts[i])
	}
	return b.String()
}

func startsShape(inst any) string {
	f, ok := snap.Field(inst, "starts")
	if !ok {
		return ""
	}
	if f.Type().Elem().Kind() == reflect.Uint8 {
		return string(f.Bytes())
	}
	var b strings.Builder
	for j := 0; j < f.Len(); j++ {
		if f.Index(j).Int() < 0 {
			b.WriteByte('{')
		} else {
			b.WriteByte('[')
		}
	}
	return b.String()
}

var numModes = map[string]bool{"negMap": true, "zeroMap": true, "digitMap": true, "dotMap": true, "fracMap": true,
	"expSignMap": true, "expZeroMap": true, "expMap": true}

// Key is the abstract state: everything the dispatch code can branch on.
func (m *M) Key(inst any) string {
	mode := m.ModeName(snap.Str(inst, "mode"))
	var b strings.Builder
	b.WriteString(mode)
	switch mode {
	case "stringMap", "escMap", "uMap":
		if snap.Has(inst, "nextMode") {
			b.WriteString(">" + m.ModeName(snap.Str(inst, "nextMode")))
		}
	}
	switch mode {
	case "nullMap", "trueMap", "falseMap", "uMap":
		fmt.Fprintf(&b, "#%d", snap.Int(inst, "ri"))
	}
	b.WriteString(" s=" + startsShape(inst))
	if sh := stackShape(inst); sh != startsShape(inst) {
		b.WriteString(" k=" + sh)
	}
	if nf := numFlags(inst, numModes[mode], mode); nf != "" {
		b.WriteString(" n=" + nf)
	}
	if m.Pkg == "sen" {
		if snap.Has(inst, "lastKey") { // sen.Parser
			if f, ok := snap.Field(inst, "quoteDelim"); ok && (mode == "stringMap" || mode == "escMap" || mode == "uMap") {
				fmt.Fprintf(&b, " q=%c", byte(f.Uint()))
			}
			if f, ok := snap.Field(inst, "lastKey"); ok && f.Len() > 0 {
				b.WriteString(" lk")
			}
			if f, ok := snap.Field(inst, "lastStrKey"); ok && f.Len() > 0 {
				b.WriteString(" lsk")
			}
		}
		if f, ok := snap.Field(inst, "tmp"); ok && mode == "tokenMap" {
			fmt.Fprintf(&b, " t=%s", tokClass(f.Bytes()))
		}
		if snap.Bool(inst, "exkey") {
			b.WriteString(" exkey")
		}
	}
	return b.String()
}

// Stale fingerprints the private fields that the abstract key treats as dead
// in the current mode (left-overs of earlier tokens). Two prefixes with the
// same key but different stale fingerprints must behave alike; the merge
// audit of the explorer checks exactly that by keeping one witness per
// distinct fingerprint.
func (m *M) Stale(inst any) string {
	var b strings.Builder
	fmt.Fprintf(&b, "ri=%d rn=%d", snap.Int(inst, "ri"), snap.Int(inst, "rn"))
	if snap.Has(inst, "nextMode") {
		b.WriteString(" nm=" + m.ModeName(snap.Str(inst, "nextMode")))
	}
	if f, ok := snap.Field(inst, "tmp"); ok {
		n := f.Len()
		if n > 2 {
			n = 2
		}
		fmt.Fprintf(&b, " tmp=%d", n)
	}
	if f, ok := snap.Field(inst, "num"); ok {
		n := f.Interface().(gen.Number)
		fmt.Fprintf(&b, " num=%v%v%v%v%v%v%v", n.I > 0, n.Frac > 0, n.Div > 1, n.Exp > 0, n.Neg, n.NegExp, len(n.BigBuf) > 0)
	}
	for _, name := range []string{"plus", "exkey", "mi"} {
		if f, ok := snap.Field(inst, name); ok {
			fmt.Fprintf(&b, " %s=%v", name, f.Interface())
		}
	}
	for _, name := range []string{"lastKey", "lastStrKey"} {
		if f, ok := snap.Field(inst, name); ok {
			fmt.Fprintf(&b, " %s=%v", name, f.Len() > 0)
		}
	}
	return b.String()
}

// tokClass abstracts a partial SEN token to what addToken can branch on.
func tokClass(t []byte) string {
	s := string(t)
	for _, w := range []string{"null", "true", "false"} {
		if s == w {
			return w
		}
		if strings.HasPrefix(w, s) {
			return w[:len(s)] + "…"
		}
	}
	if len(s) > 0 && (s[0] == '-' || s[0] == '+' || ('0' <= s[0] && s[0] <= '9')) {
		return "numlike"
	}
	return "other"
}

// Snap is the concrete live state used by the chunk lemma: control state plus
// every live data field. Scratch fields that fast paths legitimately leave
// different are masked by mode.
func (m *M) Snap(inst any) string {
	mode := m.ModeName(snap.Str(inst, "mode"))
	var b strings.Builder
	b.WriteString(m.Key(inst))
	tmpLive := false
	switch mode {
	case "stringMap", "escMap", "uMap", "tokenMap":
		tmpLive = true
	}
	if tmpLive {
		if f, ok := snap.Field(inst, "tmp"); ok {
			fmt.Fprintf(&b, " tmp=%q", f.Bytes())
		}
	}
	if mode == "uMap" {
		fmt.Fprintf(&b, " rn=%d", snap.Int(inst, "rn"))
	}
	if numModes[mode] {
		if f, ok := snap.Field(inst, "num"); ok {
			n := f.Interface().(gen.Number)
			fmt.Fprintf(&b, " num={I:%d F:%d D:%d E:%d neg:%v nexp:%v big:%q}", n.I, n.Frac, n.Div, n.Exp, n.Neg, n.NegExp, n.BigBuf)
		}
	}
	if f, ok := snap.Field(inst, "stack"); ok && f.Type().Elem().Kind() != reflect.Uint8 {
		b.WriteString(" stack=" + snap.DumpValue(f))
	}
	if f, ok := snap.Field(inst, "starts"); ok {
		b.WriteString(" starts=" + snap.DumpValue(f))
	}
	if f, ok := snap.Field(inst, "result"); ok {
		b.WriteString(" result=" + snap.DumpValue(f))
	}
	if m.Pkg == "sen" {
		for _, n := range []string{"lastKey", "lastStrKey"} {
			if f, ok := snap.Field(inst, n); ok {
				fmt.Fprintf(&b, " %s=%q", n, f.String())
			}
		}
	}
	return b.String()
}

// Pos reads the tracker position fields.
func Pos(inst any) (line, noff int) {
	return int(snap.Int(inst, "line")), int(snap.Int(inst, "noff"))
}
