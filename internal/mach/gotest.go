package mach

import (
	"fmt"
	"strings"
)

// GoTest renders a plain unit test (no harness) that feeds the chunks to the
// named machine and prints what it returns; replay files carry it so that a
// violation can be reproduced with nothing but the library.
func GoTest(machine, entry string, chunks [][]byte, multi bool) string {
	return GoTestEnv(machine, entry, chunks, multi, Config{}, nil, false)
}

// GoTestEnv is GoTest with the reader's answers of cfg (io.EOF with the last
// chunk, one empty read) or, for the []byte entry point, with spare stored
// behind the input in the slice's capacity (exact: no spare capacity).
func GoTestEnv(machine, entry string, chunks [][]byte, multi bool, cfg Config, spare []byte, exact bool) string {
	var in []byte
	var cs []string
	for _, c := range chunks {
		in = append(in, c...)
		cs = append(cs, fmt.Sprintf("%q", c))
	}
	reader := "strings.NewReader(" + fmt.Sprintf("%q", in) + ")"
	env := cfg.EOFWithLast || cfg.ZeroAt > 0
	if len(chunks) > 1 || env {
		reader = fmt.Sprintf("&chunks{parts: []string{%s}, eofWithLast: %v, zeroAt: %d}", strings.Join(cs, ", "), cfg.EOFWithLast, cfg.ZeroAt)
	}
	call := ""
	switch machine + "." + entry {
	case "oj.Parser.whole":
		call = fmt.Sprintf("v, err := (&oj.Parser{}).Parse([]byte(%q))", in)
	case "oj.Parser.reader":
		call = "v, err := (&oj.Parser{}).ParseReader(" + reader + ")"
	case "oj.Validator.whole":
		call = fmt.Sprintf("var v any; err := (&oj.Validator{OnlyOne: %v}).Validate([]byte(%q))", !multi, in)
	case "oj.Validator.reader":
		call = fmt.Sprintf("var v any; err := (&oj.Validator{OnlyOne: %v}).ValidateReader(%s)", !multi, reader)
	case "oj.Tokenizer.whole":
		call = fmt.Sprintf("var v any; tk := &oj.Tokenizer{}; tk.OnlyOne = %v; err := tk.Parse([]byte(%q), &oj.ZeroHandler{})", !multi, in)
	case "oj.Tokenizer.reader":
		call = fmt.Sprintf("var v any; tk := &oj.Tokenizer{}; tk.OnlyOne = %v; err := tk.Load(%s, &oj.ZeroHandler{})", !multi, reader)
	case "gen.Parser.whole":
		call = fmt.Sprintf("v, err := (&gen.Parser{}).Parse([]byte(%q))", in)
	case "gen.Parser.reader":
		call = "v, err := (&gen.Parser{}).ParseReader(" + reader + ")"
	case "sen.Parser.whole":
		call = fmt.Sprintf("v, err := (&sen.Parser{}).Parse([]byte(%q))", in)
	case "sen.Parser.reader":
		call = "v, err := (&sen.Parser{}).ParseReader(" + reader + ")"
	case "sen.Tokenizer.whole":
		call = fmt.Sprintf("var v any; err := (&sen.Tokenizer{OnlyOne: %v}).Parse([]byte(%q), &oj.ZeroHandler{})", !multi, in)
	default:
		call = fmt.Sprintf("var v any; err := (&sen.Tokenizer{OnlyOne: %v}).Load(%s, &oj.ZeroHandler{})", !multi, reader)
	}
	helper := ""
	if len(chunks) > 1 || env {
		helper = "\n// chunks is an io.Reader that returns exactly the given pieces, one per Read; zeroAt > 0: one (0, nil) read\n// before piece number zeroAt (or before io.EOF); eofWithLast: io.EOF comes with the last piece.\ntype chunks struct {\n\tparts       []string\n\teofWithLast bool\n\tzeroAt      int\n\ti           int\n\tzeroed      bool\n}\n\nfunc (c *chunks) Read(p []byte) (int, error) {\n\tif c.zeroAt > 0 && !c.zeroed && c.i+1 == c.zeroAt {\n\t\tc.zeroed = true\n\t\treturn 0, nil\n\t}\n\tif c.i >= len(c.parts) {\n\t\treturn 0, io.EOF\n\t}\n\tn := copy(p, c.parts[c.i])\n\tc.i++\n\tif c.eofWithLast && c.i == len(c.parts) {\n\t\treturn n, io.EOF\n\t}\n\treturn n, nil\n}\n"
	}
	if entry == "whole" && (len(spare) > 0 || exact) {
		// the input as a slice of a larger array: the bytes behind it are not part of it
		decl := fmt.Sprintf("full := []byte(%q)\n\tin := full[:%d:%d]\n\t", string(in)+string(spare), len(in), len(in)+len(spare))
		call = decl + strings.Replace(call, fmt.Sprintf("[]byte(%q)", in), "in", 1)
	}
	return "func TestReplay(t *testing.T) {\n\t" + call + "\n\tt.Logf(\"value=%v err=%v\", v, err)\n}\n" + helper
}
