package mach

import (
	"fmt"
	"strings"
)

// GoTest renders a plain unit test (no harness) that feeds the chunks to the
// named machine and prints what it returns; replay files carry it so that a
// violation can be reproduced with nothing but the library.
func GoTest(machine, entry string, chunks [][]byte, multi bool) string {
	var in []byte
	var cs []string
	for _, c := range chunks {
		in = append(in, c...)
		cs = append(cs, fmt.Sprintf("%q", c))
	}
	reader := "strings.NewReader(" + fmt.Sprintf("%q", in) + ")"
	if len(chunks) > 1 {
		reader = "&chunks{parts: []string{" + strings.Join(cs, ", ") + "}}"
	}
	call := ""
	switch machine + "." + entry {
	case "oj.Parser.whole":
		call = fmt.Sprintf("v, err := (&oj.Parser{}).Parse([]byte(%q))", in)
	case "oj.Parser.reader":
		call = "v, err := (&oj.Parser{}).ParseReader(" + reader + ")"
	case "oj.Validator.whole":
		call = fmt.Sprintf("var v any; err := (&oj.Validator{OnlyOne: %v}).Validate([]byte(%q))", !multi, in)
	case "oj.Validator.reader":
		call = fmt.Sprintf("var v any; err := (&oj.Validator{OnlyOne: %v}).ValidateReader(%s)", !multi, reader)
	case "oj.Tokenizer.whole":
		call = fmt.Sprintf("var v any; tk := &oj.Tokenizer{}; tk.OnlyOne = %v; err := tk.Parse([]byte(%q), &oj.ZeroHandler{})", !multi, in)
	case "oj.Tokenizer.reader":
		call = fmt.Sprintf("var v any; tk := &oj.Tokenizer{}; tk.OnlyOne = %v; err := tk.Load(%s, &oj.ZeroHandler{})", !multi, reader)
	case "gen.Parser.whole":
		call = fmt.Sprintf("v, err := (&gen.Parser{}).Parse([]byte(%q))", in)
	case "gen.Parser.reader":
		call = "v, err := (&gen.Parser{}).ParseReader(" + reader + ")"
	case "sen.Parser.whole":
		call = fmt.Sprintf("v, err := (&sen.Parser{}).Parse([]byte(%q))", in)
	case "sen.Parser.reader":
		call = "v, err := (&sen.Parser{}).ParseReader(" + reader + ")"
	case "sen.Tokenizer.whole":
		call = fmt.Sprintf("var v any; err := (&sen.Tokenizer{OnlyOne: %v}).Parse([]byte(%q), &oj.ZeroHandler{})", !multi, in)
	default:
		call = fmt.Sprintf("var v any; err := (&sen.Tokenizer{OnlyOne: %v}).Load(%s, &oj.ZeroHandler{})", !multi, reader)
	}
	helper := ""
	if len(chunks) > 1 {
		helper = "\n// chunks is an io.Reader that returns exactly the given pieces, one per Read.\ntype chunks struct{ parts []string }\n\nfunc (c *chunks) Read(p []byte) (int, error) {\n\tif len(c.parts) == 0 {\n\t\treturn 0, io.EOF\n\t}\n\tn := copy(p, c.parts[0])\n\tc.parts = c.parts[1:]\n\treturn n, nil\n}\n"
	}
	return "func TestReplay(t *testing.T) {\n\t" + call + "\n\tt.Logf(\"value=%v err=%v\", v, err)\n}\n" + helper
}
