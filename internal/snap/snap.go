// Package snap reads private state of real ojg objects (reflect + unsafe) and
// renders any Go value as canonical text, unexported fields included. It is
// read-only: nothing in the implementation is ever written through it.
package snap

import (
	"fmt"
	"reflect"
	"runtime"
	"sort"
	"strconv"
	"strings"
	"unsafe"
)

// Field returns a readable reflect.Value for the (possibly unexported,
// possibly promoted) field name of the struct ptr points to. ok is false when
// no such field exists.
func Field(ptr any, name string) (reflect.Value, bool) {
	v := reflect.ValueOf(ptr)
	if v.Kind() != reflect.Ptr || v.Elem().Kind() != reflect.Struct {
		return reflect.Value{}, false
	}
	f := v.Elem().FieldByName(name)
	if !f.IsValid() {
		return reflect.Value{}, false
	}
	return reflect.NewAt(f.Type(), unsafe.Pointer(f.UnsafeAddr())).Elem(), true
}

// Str reads a string field ("" when absent).
func Str(ptr any, name string) string {
	if f, ok := Field(ptr, name); ok && f.Kind() == reflect.String {
		return f.String()
	}
	return ""
}

// Int reads an integer field (0 when absent).
func Int(ptr any, name string) int64 {
	if f, ok := Field(ptr, name); ok {
		switch f.Kind() {
		case reflect.Int, reflect.Int8, reflect.Int16, reflect.Int32, reflect.Int64:
			return f.Int()
		case reflect.Uint, reflect.Uint8, reflect.Uint16, reflect.Uint32, reflect.Uint64:
			return int64(f.Uint())
		}
	}
	return 0
}

// Bool reads a bool field (false when absent).
func Bool(ptr any, name string) bool {
	if f, ok := Field(ptr, name); ok && f.Kind() == reflect.Bool {
		return f.Bool()
	}
	return false
}

// Has reports whether the struct has the field.
func Has(ptr any, name string) bool {
	_, ok := Field(ptr, name)
	return ok
}

// Dump renders v canonically: maps sorted by key text, pointers followed
// (cycles cut), unexported fields included, funcs and chans as nil/non-nil.
func Dump(v any) string {
	var b strings.Builder
	d := dumper{seen: map[uintptr]bool{}, b: &b}
	d.val(reflect.ValueOf(v), 0)
	return b.String()
}

// DumpValue is Dump for an existing reflect.Value.
func DumpValue(v reflect.Value) string {
	var b strings.Builder
	d := dumper{seen: map[uintptr]bool{}, b: &b}
	d.val(v, 0)
	return b.String()
}

type dumper struct {
	seen map[uintptr]bool
	b    *strings.Builder
	// Skip names fields that are not rendered.
	skip map[string]bool
}

// DumpSkip is Dump leaving out struct fields with the given names.
func DumpSkip(v any, skip ...string) string {
	var b strings.Builder
	d := dumper{seen: map[uintptr]bool{}, b: &b, skip: map[string]bool{}}
	for _, s := range skip {
		d.skip[s] = true
	}
	d.val(reflect.ValueOf(v), 0)
	return b.String()
}

func access(v reflect.Value) reflect.Value {
	if v.CanInterface() || !v.CanAddr() {
		return v
	}
	return reflect.NewAt(v.Type(), unsafe.Pointer(v.UnsafeAddr())).Elem()
}

func (d *dumper) val(v reflect.Value, depth int) {
	if !v.IsValid() {
		d.b.WriteString("nil")
		return
	}
	if depth > 64 {
		d.b.WriteString("<deep>")
		return
	}
	switch v.Kind() {
	case reflect.Bool:
		d.b.WriteString(strconv.FormatBool(v.Bool()))
	case reflect.Int, reflect.Int8, reflect.Int16, reflect.Int32, reflect.Int64:
		d.b.WriteString(strconv.FormatInt(v.Int(), 10))
	case reflect.Uint, reflect.Uint8, reflect.Uint16, reflect.Uint32, reflect.Uint64, reflect.Uintptr:
		d.b.WriteString(strconv.FormatUint(v.Uint(), 10))
	case reflect.Float32, reflect.Float64:
		d.b.WriteString(strconv.FormatFloat(v.Float(), 'g', -1, 64))
	case reflect.Complex64, reflect.Complex128:
		fmt.Fprintf(d.b, "%v", v.Complex())
	case reflect.String:
		d.b.WriteString(strconv.Quote(v.String()))
	case reflect.Slice:
		if v.IsNil() {
			d.b.WriteString("nil[]")
			return
		}
		if v.Type().Elem().Kind() == reflect.Uint8 {
			bs := make([]byte, v.Len())
			for i := range bs {
				bs[i] = byte(v.Index(i).Uint())
			}
			d.b.WriteString("b" + strconv.Quote(string(bs)))
			return
		}
		fallthrough
	case reflect.Array:
		d.b.WriteByte('[')
		for i := 0; i < v.Len(); i++ {
			if i > 0 {
				d.b.WriteByte(' ')
			}
			d.val(access(v.Index(i)), depth+1)
		}
		d.b.WriteByte(']')
	case reflect.Map:
		if v.IsNil() {
			d.b.WriteString("nil{}")
			return
		}
		type kv struct {
			k string
			v reflect.Value
		}
		var kvs []kv
		it := v.MapRange()
		for it.Next() {
			kvs = append(kvs, kv{DumpValue(it.Key()), it.Value()})
		}
		sort.Slice(kvs, func(i, j int) bool { return kvs[i].k < kvs[j].k })
		d.b.WriteString("{")
		for i, e := range kvs {
			if i > 0 {
				d.b.WriteByte(' ')
			}
			d.b.WriteString(e.k)
			d.b.WriteByte(':')
			d.val(e.v, depth+1)
		}
		d.b.WriteString("}")
	case reflect.Ptr:
		if v.IsNil() {
			d.b.WriteString("nil*")
			return
		}
		p := v.Pointer()
		if d.seen[p] {
			d.b.WriteString("<cycle>")
			return
		}
		d.seen[p] = true
		d.b.WriteByte('&')
		d.val(v.Elem(), depth+1)
		delete(d.seen, p)
	case reflect.Interface:
		if v.IsNil() {
			d.b.WriteString("nil")
			return
		}
		e := v.Elem()
		d.b.WriteString(e.Type().String())
		d.b.WriteByte('(')
		d.val(e, depth+1)
		d.b.WriteByte(')')
	case reflect.Struct:
		t := v.Type()
		if !v.CanAddr() { // make addressable so private fields can be read
			c := reflect.New(t).Elem()
			c.Set(v)
			v = c
		}
		d.b.WriteString(t.Name())
		d.b.WriteByte('{')
		first := true
		for i := 0; i < v.NumField(); i++ {
			if d.skip != nil && d.skip[t.Field(i).Name] {
				continue
			}
			if !first {
				d.b.WriteByte(' ')
			}
			first = false
			d.b.WriteString(t.Field(i).Name)
			d.b.WriteByte(':')
			d.val(access(v.Field(i)), depth+1)
		}
		d.b.WriteByte('}')
	case reflect.Func:
		if v.IsNil() {
			d.b.WriteString("nilfunc")
		} else {
			d.b.WriteString("func")
		}
	case reflect.Chan:
		if v.IsNil() {
			d.b.WriteString("nilchan")
		} else {
			d.b.WriteString("chan")
		}
	case reflect.UnsafePointer:
		d.b.WriteString("uptr")
	default:
		fmt.Fprintf(d.b, "<%s>", v.Kind())
	}
}

// PanicSite must be called from a deferred function while a panic is being
// recovered: it returns the innermost function of github.com/ohler55/ojg on
// the panicking stack (function name only, so that line shifts do not change
// it), or "?" when none is found.
func PanicSite() string {
	pcs := make([]uintptr, 64)
	n := runtime.Callers(2, pcs)
	frames := runtime.CallersFrames(pcs[:n])
	for {
		f, more := frames.Next()
		if strings.Contains(f.Function, "github.com/ohler55/ojg") {
			fn := f.Function[strings.LastIndex(f.Function, "/")+1:]
			return fn
		}
		if !more {
			return "?"
		}
	}
}
