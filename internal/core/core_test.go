package core

import (
	"strings"
	"testing"
	"time"
)

// The budget of a worker is its own CPU time: burning CPU ends it, and the
// run is then marked as cut short. (No assertion here depends on how fast the
// machine is or on what else it is doing: the loop ends at the CPU budget or,
// on a machine that gives the test no CPU, at the wall-clock backstop.)
func TestExpiredCountsOwnCPUTime(t *testing.T) {
	c := NewCtx("quick", 0, 1, 0, 200*time.Millisecond)
	before := selfCPU()
	x := 0
	for !c.Expired("test loop") {
		for i := 0; i < 1000; i++ {
			x += i * i
		}
	}
	_ = x
	r := c.Report()
	if !r.Capped || !strings.HasPrefix(r.CapNote, "internal deadline reached in test loop") {
		t.Fatalf("capped=%v note=%q", r.Capped, r.CapNote)
	}
	if strings.Contains(r.CapNote, "CPU time used by this worker") && selfCPU() < 200*time.Millisecond {
		t.Fatalf("reported the CPU budget as used after %v (from %v)", selfCPU(), before)
	}
	if !c.Expired("again") {
		t.Fatal("expired once, not expired later")
	}
}

func TestNoBudgetNeverExpires(t *testing.T) {
	c := NewCtx("quick", 0, 1, 0, 0)
	for i := 0; i < 1000; i++ {
		if c.Expired("x") {
			t.Fatal("expired without a budget")
		}
	}
	if c.Report().Capped {
		t.Fatal("capped without a budget")
	}
}
