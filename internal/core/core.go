// Package core holds the machinery every check shares: the worker-side
// context that counts what was explored and collects failing cases, the
// parent that shards a check over worker subprocesses and merges their
// reports, the known-findings matcher, and the evidence / replay writers.
package core

import (
	"encoding/json"
	"fmt"
	"os"
	"sort"
	"strings"
	"sync/atomic"
	"syscall"
	"time"
)

// Check is one property's driver.
type Check struct {
	ID    string
	Level string // model_checking | exploration
	// Shards returns the number of deterministic shards for the tier.
	Shards func(tier string) int
	// Run explores shard c.Shard of c.NShards and reports through c.
	Run func(c *Ctx)
	// Replay re-executes one recorded case and returns the failures it
	// still produces (empty = no longer fails).
	Replay func(c *Ctx, cs json.RawMessage)
	// Rule describes enumeration and what counts as distinct non-trivial.
	Rule        string
	Assumptions []string
	// Bound describes the bound completed per tier (goes to evidence).
	Bound func(tier string) string
}

var registry = map[string]*Check{}

// Register adds a check to the dispatcher.
func Register(c *Check) { registry[c.ID] = c }

// Lookup finds a registered check.
func Lookup(id string) *Check { return registry[id] }

// IDs lists registered checks.
func IDs() []string {
	var ids []string
	for id := range registry {
		ids = append(ids, id)
	}
	sort.Strings(ids)
	return ids
}

// Failure is one failing case grouped under its signature.
type Failure struct {
	Sig   string          `json:"sig"`
	Count int64           `json:"count"`
	Case  json.RawMessage `json:"case"`
	Exp   string          `json:"expected"`
	Obs   string          `json:"observed"`
	Size  int             `json:"size"` // smaller = simpler witness
}

// Report is what one worker hands back.
type Report struct {
	Shard    int                 `json:"shard"`
	Counters map[string]int64    `json:"counters"`
	Samples  []any               `json:"samples"`
	Fails    map[string]*Failure `json:"fails"`
	Notes    []string            `json:"notes"`
	Capped   bool                `json:"capped"`
	CapNote  string              `json:"cap_note"`
	HarnessE []string            `json:"harness_errors"`
}

// Ctx is the worker-side handle.
type Ctx struct {
	Tier      string
	Shard     int
	NShards   int
	Seed      int64
	Journal   bool
	Replaying bool
	// The budget of a worker is CPU time it has used itself, not time on the
	// wall: how much of the enumeration fits into it then depends on the code
	// and the tier only, not on what else the machine is doing (other checks
	// running side by side, a starved or slower copy of the sandbox). The
	// wall-clock limit is a distant backstop for a machine that gives the
	// worker next to no CPU at all.
	cpuBudget time.Duration
	wallLimit time.Time
	nextLook  time.Time
	expired   bool
	ticks     int64
	rep       Report
	distinct  map[string]struct{}
}

// NewCtx builds a context for one shard.
func NewCtx(tier string, shard, n int, seed int64, budget time.Duration) *Ctx {
	c := &Ctx{Tier: tier, Shard: shard, NShards: n, Seed: seed}
	c.rep.Shard = shard
	c.rep.Counters = map[string]int64{}
	c.rep.Fails = map[string]*Failure{}
	c.distinct = map[string]struct{}{}
	if budget > 0 {
		c.cpuBudget = budget
		c.wallLimit = time.Now().Add(WallBackstop(budget))
	}
	c.Journal = os.Getenv("VERIF_JOURNAL") == "1"
	return c
}

// progress is a number that changes whenever the worker gets something done
// (the parent's hang watchdog looks at it).
func (c *Ctx) progress() int64 { return atomic.LoadInt64(&c.ticks) }

// Tick marks progress that no counter shows (long setup phases).
func (c *Ctx) Tick() { atomic.AddInt64(&c.ticks, 1) }

// Quick reports whether the tier is quick.
func (c *Ctx) Quick() bool { return c.Tier != "thorough" }

// Pick chooses q for quick and t for thorough.
func (c *Ctx) Pick(q, t int) int {
	if c.Quick() {
		return q
	}
	return t
}

// Mine says whether item i belongs to this shard.
func (c *Ctx) Mine(i int) bool { return c.NShards <= 1 || i%c.NShards == c.Shard }

// Add bumps a named counter.
func (c *Ctx) Add(key string, n int64) {
	c.rep.Counters[key] += n
	atomic.AddInt64(&c.ticks, 1)
}

// Eval counts one evaluation.
func (c *Ctx) Eval() {
	c.rep.Counters["evaluations"]++
	atomic.AddInt64(&c.ticks, 1)
}

// Nontrivial counts a distinct non-trivial case; the caller guarantees
// distinctness (cases are enumerated without repetition).
func (c *Ctx) Nontrivial() { c.rep.Counters["distinct_nontrivial"]++ }

// NontrivialKey counts a non-trivial case once per key.
func (c *Ctx) NontrivialKey(k string) {
	if _, ok := c.distinct[k]; !ok {
		c.distinct[k] = struct{}{}
		c.rep.Counters["distinct_nontrivial"]++
	}
}

// Sample records a witness case (kept small).
func (c *Ctx) Sample(v any) {
	if len(c.rep.Samples) < 6 {
		c.rep.Samples = append(c.rep.Samples, v)
	}
}

// Note adds free text to the evidence.
func (c *Ctx) Note(format string, args ...any) {
	if len(c.rep.Notes) < 50 {
		c.rep.Notes = append(c.rep.Notes, fmt.Sprintf(format, args...))
	}
}

// HarnessError records a failure of the machinery itself (exit 2).
func (c *Ctx) HarnessError(format string, args ...any) {
	if len(c.rep.HarnessE) < 20 {
		c.rep.HarnessE = append(c.rep.HarnessE, fmt.Sprintf(format, args...))
	}
}

// Expired reports whether the soft deadline has passed; the caller stops
// expanding and the run is marked non-exhaustive.
func (c *Ctx) Expired(what string) bool {
	atomic.AddInt64(&c.ticks, 1)
	if c.cpuBudget == 0 {
		return false
	}
	if c.expired {
		return true // once over, always over: every later loop of the check stops too
	}
	now := time.Now()
	if now.Before(c.nextLook) {
		return false
	}
	used := selfCPU()
	if used < c.cpuBudget && now.Before(c.wallLimit) {
		// CPU time cannot grow much faster than the wall clock (GOMAXPROCS=1
		// plus the collector's helpers), so a quarter of what is left is a safe
		// time to look again without a system call at every poll.
		wait := (c.cpuBudget - used) / 4
		if wait > 2*time.Second {
			wait = 2 * time.Second
		}
		if wait < 10*time.Millisecond {
			wait = 10 * time.Millisecond
		}
		c.nextLook = now.Add(wait)
		return false
	}
	c.expired = true
	if !c.rep.Capped {
		c.rep.Capped = true
		kind := fmt.Sprintf("%.0f s of CPU time used by this worker", c.cpuBudget.Seconds())
		if used < c.cpuBudget {
			kind = fmt.Sprintf("wall-clock backstop of %.0f min; the worker had only %.0f s of CPU time", WallBackstop(c.cpuBudget).Minutes(), used.Seconds())
		}
		c.rep.CapNote = "internal deadline reached in " + what + " (" + kind + ")"
	}
	return true
}

// WallBackstop is the wall-clock limit that goes with a CPU-time budget: three
// times the budget, i.e. a worker that got less than a third of a processor.
func WallBackstop(budget time.Duration) time.Duration { return 3 * budget }

// selfCPU is the CPU time (user + system, all threads) this process has used.
func selfCPU() time.Duration {
	var ru syscall.Rusage
	if err := syscall.Getrusage(syscall.RUSAGE_SELF, &ru); err != nil {
		return 0
	}
	return time.Duration(ru.Utime.Nano() + ru.Stime.Nano())
}

// Cap marks the run non-exhaustive for a stated reason.
func (c *Ctx) Cap(note string) {
	c.rep.Capped = true
	if c.rep.CapNote == "" {
		c.rep.CapNote = note
	}
}

// Case journals the case about to be executed (journal mode only) so that a
// fatal runtime abort can be attributed.
func (c *Ctx) Case(desc func() string) {
	if c.Journal {
		fmt.Fprintf(os.Stdout, "{\"t\":\"case\",\"d\":%q}\n", desc())
	}
}

// Fail records a failing case under its signature. size orders witnesses
// (the smallest is kept).
func (c *Ctx) Fail(sig string, cs any, size int, exp, obs string) {
	f := c.rep.Fails[sig]
	if f == nil {
		f = &Failure{Sig: sig, Size: 1 << 30}
		c.rep.Fails[sig] = f
	}
	f.Count++
	if size < f.Size {
		raw, err := json.Marshal(cs)
		if err != nil {
			raw, _ = json.Marshal(fmt.Sprintf("%#v", cs))
		}
		f.Case, f.Size, f.Exp, f.Obs = raw, size, clip(exp), clip(obs)
	}
}

// Failures returns the collected failures (used by replay).
func (c *Ctx) Failures() map[string]*Failure { return c.rep.Fails }

// Report returns the worker report.
func (c *Ctx) Report() *Report { return &c.rep }

func clip(s string) string {
	if len(s) > 600 {
		return s[:600] + "…"
	}
	return s
}

// Sig joins signature coordinates.
func Sig(parts ...string) string { return strings.Join(parts, "|") }
