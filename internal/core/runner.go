package core

import (
	"bufio"
	"bytes"
	"crypto/sha1"
	"encoding/hex"
	"encoding/json"
	"fmt"
	"os"
	"os/exec"
	"path/filepath"
	"runtime"
	"runtime/debug"
	"sort"
	"strconv"
	"strings"
	"sync"
	"sync/atomic"
	"time"
)

// Root is the /verif directory (overridable for tests).
var Root = func() string {
	if r := os.Getenv("VERIF_ROOT"); r != "" {
		return r
	}
	return "/verif"
}()

// OutRoot is where evidence and replays are written (VERIF_OUT overrides it so
// that developer runs against a scratch copy of ojg do not clobber the real files).
var OutRoot = func() string {
	if r := os.Getenv("VERIF_OUT"); r != "" {
		return r
	}
	return Root
}()

// Finding is one line of known_findings.txt.
type Finding struct {
	Property string `json:"property"`
	Sig      string `json:"sig"`
	Status   string `json:"status"` // open | fixed
	Witness  string `json:"witness,omitempty"`
	What     string `json:"what,omitempty"`
	Commit   string `json:"commit,omitempty"`
	Note     string `json:"note,omitempty"`
	// ShapesFile (relative to the root) narrows a |* entry: it then lists only
	// the signatures found in that committed file, one per line. A signature of
	// the family that is not in the file is a violation like any other.
	ShapesFile string `json:"shapes_file,omitempty"`
	shapes     map[string]bool
}

// LoadFindings reads known_findings.txt.
func LoadFindings() ([]Finding, error) {
	f, err := os.Open(filepath.Join(Root, "known_findings.txt"))
	if err != nil {
		if os.IsNotExist(err) {
			return nil, nil
		}
		return nil, err
	}
	defer f.Close()
	var out []Finding
	sc := bufio.NewScanner(f)
	sc.Buffer(make([]byte, 1<<20), 1<<20)
	ln := 0
	for sc.Scan() {
		ln++
		line := strings.TrimSpace(sc.Text())
		if line == "" || strings.HasPrefix(line, "#") || strings.HasPrefix(line, "fixed:") {
			continue // fixed entries are documentation only: they never suppress anything
		}
		var k Finding
		if err := json.Unmarshal([]byte(line), &k); err != nil {
			return nil, fmt.Errorf("known_findings.txt:%d: %v", ln, err)
		}
		if k.ShapesFile != "" {
			b, err := os.ReadFile(filepath.Join(Root, k.ShapesFile))
			if err != nil {
				return nil, fmt.Errorf("known_findings.txt:%d: %v", ln, err)
			}
			k.shapes = map[string]bool{}
			for _, l := range strings.Split(string(b), "\n") {
				if l = strings.TrimRight(l, "\r"); l != "" && !strings.HasPrefix(l, "#") {
					k.shapes[l] = true
				}
			}
		}
		out = append(out, k)
	}
	return out, sc.Err()
}

// matches implements exact match and the trailing |* prefix form.
func (k *Finding) matches(prop, sig string) bool {
	if k.Property != prop || k.Status != "open" {
		return false
	}
	if strings.HasSuffix(k.Sig, "|*") {
		p := strings.TrimSuffix(k.Sig, "*")
		if !(strings.HasPrefix(sig, p) || sig == strings.TrimSuffix(p, "|")) {
			return false
		}
		return k.shapes == nil || k.shapes[sig]
	}
	return k.Sig == sig
}

// budgetFor is the CPU time one worker may use before it stops expanding
// (Ctx.Expired). The tiers are sized by their bounds, not by this number: the
// heaviest quick shard needs about 33 s of CPU time (C11) and the heaviest thorough
// shard about 13 min (C09) on the machine the checks were written on, so a run is cut
// short only on a much slower processor, never because the machine is busy.
func budgetFor(tier string) time.Duration {
	if s := os.Getenv("VERIF_BUDGET_S"); s != "" {
		if n, err := strconv.Atoi(s); err == nil {
			return time.Duration(n) * time.Second
		}
	}
	if tier == "thorough" {
		return 30 * time.Minute
	}
	return 5 * time.Minute
}

func seed() int64 {
	n, _ := strconv.ParseInt(os.Getenv("VERIF_SEED"), 10, 64)
	return n
}

// WorkerMain runs one shard and prints its report.
func WorkerMain(id, tier string, shard, n int) int {
	ck := Lookup(id)
	if ck == nil {
		fmt.Fprintln(os.Stderr, "unknown check", id)
		return 2
	}
	debug.SetMemoryLimit(3 << 30)
	c := NewCtx(tier, shard, n, seed(), budgetFor(tier))
	var done int32
	go func() { // heartbeat: lets the parent tell a hang from slow progress
		for atomic.LoadInt32(&done) == 0 {
			time.Sleep(2 * time.Second)
			var ms runtime.MemStats
			runtime.ReadMemStats(&ms)
			fmt.Fprintf(os.Stdout, "{\"t\":\"hb\",\"sys\":%d,\"ev\":%d}\n", ms.Sys, c.progress())
		}
	}()
	ck.Run(c)
	atomic.StoreInt32(&done, 1)
	out, err := json.Marshal(struct {
		T string  `json:"t"`
		R *Report `json:"r"`
	}{"report", c.Report()})
	if err != nil {
		fmt.Fprintln(os.Stderr, "marshal report:", err)
		return 2
	}
	os.Stdout.Write(append(out, '\n'))
	return 0
}

type workerResult struct {
	rep      *Report
	crashed  bool
	stderr   string
	lastCase string
	hung     bool
	cpu      time.Duration // user + system time of the worker process, from wait4
}

func runWorker(self, id, tier string, shard, n int, journal bool) workerResult {
	cmd := exec.Command(self, "worker", id, tier, strconv.Itoa(shard), strconv.Itoa(n))
	env := os.Environ()
	if os.Getenv("VERIF_GOMAXPROCS") == "" {
		env = append(env, "GOMAXPROCS=1")
	} else {
		env = append(env, "GOMAXPROCS="+os.Getenv("VERIF_GOMAXPROCS"))
	}
	if journal {
		env = append(env, "VERIF_JOURNAL=1")
	}
	cmd.Env = env
	var errb bytes.Buffer
	cmd.Stderr = &limitWriter{w: &errb, n: 1 << 16}
	stdout, _ := cmd.StdoutPipe()
	var res workerResult
	if err := cmd.Start(); err != nil {
		res.crashed, res.stderr = true, err.Error()
		return res
	}
	var last int64 = time.Now().UnixNano()
	stop := make(chan struct{})
	go func() { // hang watchdog: the heartbeat goroutine dies only with the process
		// A worker hangs when it makes no progress although it runs: it has
		// burnt 100 s of CPU time since its last progress (a spinning loop), or
		// 15 min of wall time have passed (a blocked one). Wall time alone is not
		// a sign on a machine where the workers are starved of CPU.
		t := time.NewTicker(5 * time.Second)
		defer t.Stop()
		cpuAtProgress, seenProgress := cpuSeconds(cmd.Process.Pid), atomic.LoadInt64(&last)
		for {
			select {
			case <-stop:
				return
			case <-t.C:
				lp := atomic.LoadInt64(&last)
				if lp != seenProgress {
					seenProgress, cpuAtProgress = lp, cpuSeconds(cmd.Process.Pid)
					continue
				}
				idle := time.Since(time.Unix(0, lp))
				if idle < 120*time.Second {
					continue
				}
				if cpu := cpuSeconds(cmd.Process.Pid); (cpu >= 0 && cpu-cpuAtProgress >= 100) || (cpu < 0 && idle > 5*time.Minute) || idle > 15*time.Minute {
					res.hung = true
					_ = cmd.Process.Kill()
					return
				}
			}
		}
	}()
	sc := bufio.NewScanner(stdout)
	sc.Buffer(make([]byte, 1<<20), 1<<28)
	lastEv, lastProgress := int64(-1), time.Now().UnixNano()
	for sc.Scan() {
		line := sc.Bytes()
		atomic.StoreInt64(&last, time.Now().UnixNano())
		switch {
		case bytes.HasPrefix(line, []byte(`{"t":"hb"`)):
			var hb struct{ Sys, Ev int64 }
			_ = json.Unmarshal(line, &hb)
			if hb.Ev == lastEv { // a heartbeat without progress does not count as a sign of life
				atomic.StoreInt64(&last, lastProgress)
			} else {
				lastEv, lastProgress = hb.Ev, time.Now().UnixNano()
			}
			if hb.Sys > 6<<30 {
				res.stderr = "worker memory above 6 GiB; killed"
				_ = cmd.Process.Kill()
			}
		case bytes.HasPrefix(line, []byte(`{"t":"case"`)):
			var cs struct{ D string }
			_ = json.Unmarshal(line, &cs)
			res.lastCase = cs.D
		case bytes.HasPrefix(line, []byte(`{"t":"report"`)):
			var wrap struct{ R *Report }
			if err := json.Unmarshal(line, &wrap); err == nil {
				res.rep = wrap.R
			} else {
				res.stderr += "bad report: " + err.Error()
			}
		}
	}
	err := cmd.Wait()
	close(stop)
	if ps := cmd.ProcessState; ps != nil {
		res.cpu = ps.UserTime() + ps.SystemTime()
	}
	if err != nil || res.rep == nil {
		res.crashed = true
		res.stderr += errb.String()
	}
	return res
}

// cpuSeconds returns the CPU time (user + system, all threads) the process has
// used so far, from /proc/<pid>/stat; -1 when it cannot be read.
func cpuSeconds(pid int) float64 {
	b, err := os.ReadFile(fmt.Sprintf("/proc/%d/stat", pid))
	if err != nil {
		return -1
	}
	// the command name (field 2) is in parentheses and may hold blanks
	i := bytes.LastIndexByte(b, ')')
	if i < 0 {
		return -1
	}
	f := strings.Fields(string(b[i+1:]))
	if len(f) < 13 {
		return -1
	}
	ut, err1 := strconv.ParseFloat(f[11], 64) // utime: field 14 of the line
	st, err2 := strconv.ParseFloat(f[12], 64) // stime: field 15
	if err1 != nil || err2 != nil {
		return -1
	}
	return (ut + st) / 100 // USER_HZ is 100 on Linux
}

type limitWriter struct {
	w *bytes.Buffer
	n int
}

func (l *limitWriter) Write(p []byte) (int, error) {
	if l.w.Len() < l.n {
		l.w.Write(p)
	}
	return len(p), nil
}

// ParentMain shards the check, merges, matches findings, writes evidence and
// replays, prints the contract lines and returns the exit code.
func ParentMain(id, tier string) int {
	start := time.Now()
	ck := Lookup(id)
	if ck == nil {
		fmt.Fprintln(os.Stderr, "unknown check", id)
		return 2
	}
	known, err := LoadFindings()
	if err != nil {
		fmt.Fprintln(os.Stderr, err)
		return 2
	}
	self, _ := os.Executable()
	n := 1
	if ck.Shards != nil {
		n = ck.Shards(tier)
	}
	par := runtime.NumCPU()
	if p, err := strconv.Atoi(os.Getenv("VERIF_PAR")); err == nil && p > 0 {
		par = p
	}
	results := make([]workerResult, n)
	sem := make(chan struct{}, par)
	var wg sync.WaitGroup
	for i := 0; i < n; i++ {
		wg.Add(1)
		go func(i int) {
			defer wg.Done()
			sem <- struct{}{}
			defer func() { <-sem }()
			t0 := time.Now()
			results[i] = runWorker(self, id, tier, i, n, false)
			if os.Getenv("VERIF_DEBUG") != "" {
				fmt.Fprintf(os.Stderr, "shard %d/%d: %.1fs\n", i, n, time.Since(t0).Seconds())
			}
			if results[i].crashed && os.Getenv("VERIF_NOJOURNAL") == "" {
				j := runWorker(self, id, tier, i, n, true)
				if results[i].hung && !j.crashed && j.rep != nil {
					// The enumeration is deterministic: a loop that does not end would
					// not end in the second run either. The shard completed now, so the
					// first run was stalled from outside (the machine, not the code):
					// its report is the second run's, and the restart is put on record.
					j.rep.Notes = append(j.rep.Notes, fmt.Sprintf("shard %d made no progress for 120 s and was restarted; the second run completed", i))
					if j.rep.Counters == nil {
						j.rep.Counters = map[string]int64{}
					}
					j.rep.Counters["workers_restarted_after_a_stall"]++
					results[i] = j
					return
				}
				results[i].lastCase = j.lastCase
				if !j.crashed { // did not reproduce: still a fault, but say so
					results[i].lastCase = "(not reproduced in journal mode) " + j.lastCase
				}
			}
		}(i)
	}
	wg.Wait()

	merged := &Report{Counters: map[string]int64{}, Fails: map[string]*Failure{}}
	var cpu cpuUse
	cpu.workers, cpu.budget = n, budgetFor(tier)
	for i, r := range results {
		cpu.total += r.cpu
		if r.cpu > cpu.max {
			cpu.max = r.cpu
		}
		if r.crashed {
			sig := Sig("worker-fault", faultKind(r.stderr, r.hung))
			raw, _ := json.Marshal(map[string]any{"kind": "journal", "shard": i, "nshards": n, "last_case": r.lastCase})
			f := merged.Fails[sig]
			if f == nil {
				f = &Failure{Sig: sig, Case: raw, Exp: "worker completes", Obs: clip(tail(r.stderr, 1500))}
				merged.Fails[sig] = f
			}
			f.Count++
			continue
		}
		for k, v := range r.rep.Counters {
			merged.Counters[k] += v
		}
		for _, s := range r.rep.Samples {
			if len(merged.Samples) < 8 {
				merged.Samples = append(merged.Samples, s)
			}
		}
		merged.Notes = append(merged.Notes, r.rep.Notes...)
		merged.HarnessE = append(merged.HarnessE, r.rep.HarnessE...)
		if r.rep.Capped {
			merged.Capped = true
			if merged.CapNote == "" {
				merged.CapNote = r.rep.CapNote
			}
		}
		for sig, f := range r.rep.Fails {
			m := merged.Fails[sig]
			if m == nil {
				cp := *f
				merged.Fails[sig] = &cp
				continue
			}
			m.Count += f.Count
			if f.Size < m.Size {
				m.Case, m.Size, m.Exp, m.Obs = f.Case, f.Size, f.Exp, f.Obs
			}
		}
	}

	// match against known findings
	sigs := make([]string, 0, len(merged.Fails))
	for s := range merged.Fails {
		sigs = append(sigs, s)
	}
	sort.Strings(sigs)
	observed := map[int]int64{}
	var unlisted []string
	for _, s := range sigs {
		hit := false
		for i := range known {
			if known[i].matches(id, s) {
				observed[i] += merged.Fails[s].Count
				hit = true
				break
			}
		}
		if !hit {
			unlisted = append(unlisted, s)
		}
	}
	nKnown := 0
	for i, k := range known {
		if k.Property == id && k.Status == "open" {
			nKnown++
			fmt.Printf("KNOWN-FINDING: property=%s sig=%s observed=%d %s (witness %s)\n", id, k.Sig, observed[i], k.What, k.Witness)
		}
	}
	_ = os.MkdirAll(filepath.Join(OutRoot, "replays"), 0o755)
	if old, _ := filepath.Glob(filepath.Join(OutRoot, "replays", id+"-*.json")); len(old) > 0 {
		for _, f := range old {
			_ = os.Remove(f) // replays of earlier runs of this property are stale
		}
	}
	maxRep := 40
	if n, err := strconv.Atoi(os.Getenv("VERIF_MAXREP")); err == nil && n > 0 {
		maxRep = n
	}
	for i, s := range unlisted {
		f := merged.Fails[s]
		if i >= maxRep {
			fmt.Printf("VIOLATION property=%s replay=(see evidence; %d more signatures not written) sig=%s\n", id, len(unlisted)-maxRep, s)
			break
		}
		path := writeReplay(ck, id, tier, f)
		fmt.Printf("VIOLATION property=%s replay=%s sig=%s count=%d\n", id, path, s, f.Count)
	}
	writeEvidence(ck, id, tier, merged, unlisted, nKnown, time.Since(start), cpu)
	for _, h := range merged.HarnessE {
		fmt.Fprintln(os.Stderr, "HARNESS-ERROR:", h)
	}
	fmt.Printf("summary property=%s tier=%s evaluations=%d states=%d transitions=%d known_sigs_hit=%d unlisted=%d exhaustive=%v wall=%.1fs\n",
		id, tier, merged.Counters["evaluations"], merged.Counters["states"], merged.Counters["transitions"],
		len(sigs)-len(unlisted), len(unlisted), !merged.Capped, time.Since(start).Seconds())
	if len(unlisted) > 0 {
		return 1
	}
	if len(merged.HarnessE) > 0 {
		return 2
	}
	return 0
}

func faultKind(stderr string, hung bool) string {
	if hung {
		return "hang"
	}
	for _, line := range strings.Split(stderr, "\n") {
		line = strings.TrimSpace(line)
		if strings.HasPrefix(line, "fatal error:") || strings.HasPrefix(line, "panic:") || strings.HasPrefix(line, "runtime:") {
			if len(line) > 80 {
				line = line[:80]
			}
			return line
		}
	}
	return "abnormal-exit"
}

func tail(s string, n int) string {
	if len(s) > n {
		return s[:n]
	}
	return s
}

func writeReplay(ck *Check, id, tier string, f *Failure) string {
	h := sha1.Sum([]byte(f.Sig))
	name := fmt.Sprintf("%s-%s.json", id, hex.EncodeToString(h[:6]))
	path := filepath.Join(OutRoot, "replays", name)
	reproduced := ""
	if ck.Replay != nil && !strings.HasPrefix(f.Sig, "worker-fault") {
		k := 0
		for i := 0; i < 5; i++ {
			func() {
				defer func() { _ = recover() }()
				c := NewCtx(tier, 0, 1, 0, 0)
				c.Replaying = true
				ck.Replay(c, f.Case)
				if len(c.Failures()) > 0 {
					k++
				}
			}()
		}
		reproduced = fmt.Sprintf("%d/5", k)
	}
	out := map[string]any{
		"property": id, "sig": f.Sig, "tier": tier, "case": f.Case, "expected": f.Exp, "observed": f.Obs,
		"count": f.Count, "reproduced": reproduced,
		"replay_cmd": fmt.Sprintf("./run.sh %s replay %s", id, path),
	}
	b, _ := json.MarshalIndent(out, "", " ")
	_ = os.WriteFile(path, append(b, '\n'), 0o644)
	return path
}

// cpuUse says how far the workers of a run were from their CPU-time budget.
type cpuUse struct {
	workers    int
	budget     time.Duration
	max, total time.Duration
}

func writeEvidence(ck *Check, id, tier string, m *Report, unlisted []string, nKnown int, wall time.Duration, cpu cpuUse) {
	cov := map[string]any{}
	for k, v := range m.Counters {
		cov[k] = v
	}
	if _, ok := cov["evaluations"]; !ok {
		cov["evaluations"] = m.Counters["transitions"]
	}
	if _, ok := cov["distinct_nontrivial"]; !ok {
		cov["distinct_nontrivial"] = m.Counters["states"]
	}
	cov["rule"] = ck.Rule
	if len(m.Samples) == 0 {
		m.Samples = []any{"(no sample recorded)"}
	}
	cov["samples"] = m.Samples
	cov["exhaustive"] = !m.Capped
	if m.Capped {
		cov["cap"] = m.CapNote
	}
	if ck.Bound != nil {
		cov["bound"] = ck.Bound(tier)
	}
	cov["worker_cpu_time"] = map[string]any{
		"workers":             cpu.workers,
		"budget_per_worker_s": int(cpu.budget.Seconds()),
		"max_used_s":          float64(int(cpu.max.Seconds()*10)) / 10,
		"total_used_s":        float64(int(cpu.total.Seconds()*10)) / 10,
		"note":                "a worker stops expanding (exhaustive:false) when it has itself used its budget of CPU time; time spent waiting for a busy machine does not count",
	}
	if len(m.Notes) > 0 {
		cov["notes"] = m.Notes
	}
	fails := map[string]int64{}
	for s, f := range m.Fails {
		fails[s] = f.Count
	}
	cov["failing_signatures"] = fails
	cov["known_findings_listed"] = nKnown
	if unlisted == nil {
		unlisted = []string{}
	}
	cov["unlisted_signatures"] = unlisted
	if ck.Level == "model_checking" {
		for _, k := range []string{"states", "transitions", "traces_validated_against_impl"} {
			if _, ok := cov[k]; !ok {
				cov[k] = int64(0)
			}
		}
	}
	ev := map[string]any{
		"property_id": id,
		"tier":        tier,
		"seed":        seed(),
		"level":       ck.Level,
		"coverage":    cov,
		"assumptions": ck.Assumptions,
		"wall_s":      float64(int(wall.Seconds()*10)) / 10,
		"violations":  len(unlisted),
	}
	if ck.Assumptions == nil {
		ev["assumptions"] = []string{}
	}
	b, _ := json.MarshalIndent(ev, "", " ")
	_ = os.MkdirAll(filepath.Join(OutRoot, "evidence"), 0o755)
	_ = os.WriteFile(filepath.Join(OutRoot, "evidence", id+".json"), append(b, '\n'), 0o644)
}

// ReplayMain re-executes a replay file; exit 1 if it still fails.
func ReplayMain(id, path string) int {
	ck := Lookup(id)
	if ck == nil || ck.Replay == nil {
		fmt.Fprintln(os.Stderr, "no replay for", id)
		return 2
	}
	b, err := os.ReadFile(path)
	if err != nil {
		fmt.Fprintln(os.Stderr, err)
		return 2
	}
	var rf struct {
		Case json.RawMessage `json:"case"`
		Sig  string          `json:"sig"`
	}
	if err := json.Unmarshal(b, &rf); err != nil {
		fmt.Fprintln(os.Stderr, err)
		return 2
	}
	c := NewCtx("quick", 0, 1, 0, 0)
	c.Replaying = true
	ck.Replay(c, rf.Case)
	if len(c.Failures()) == 0 {
		fmt.Println("replay: case no longer fails")
		return 0
	}
	for s, f := range c.Failures() {
		fmt.Printf("replay: FAILS sig=%s\n  expected: %s\n  observed: %s\n", s, f.Exp, f.Obs)
	}
	fmt.Printf("VIOLATION property=%s replay=%s\n", id, path)
	return 1
}
