// Package sched is the controlled scheduler and the stateless schedule
// explorer (style I of DESIGN.md). Harness threads are real goroutines, but
// exactly one runs at a time: every pool / mutex operation of ojg (through the
// vsync shim) and every explicit Yield is a scheduling point at which the
// arbiter decides which thread continues. Explore enumerates all schedules
// depth-first with iterative preemption bounding.
package sched

import (
	"fmt"

	"github.com/ohler55/ojg/vsync"
)

// Point is one scheduling decision of an execution.
type Point struct {
	Enabled   []int  // thread ids in canonical order: the running thread first if still enabled, then ascending
	Chosen    int    // index into Enabled
	Preempt   bool   // the choice switched away from a thread that could have continued
	RunningOK bool   // the previously running thread is still enabled
	Kind      string // kind of operation the chosen thread is about to perform
}

// Exec is one complete execution.
type Exec struct {
	Points   []Point
	Deadlock bool
	Horizon  bool
	Panics   []any // per thread: recovered panic value (nil = none)
	Diverged string
}

// Choices returns the choice indexes taken.
func (x *Exec) Choices() []int {
	out := make([]int, len(x.Points))
	for i, p := range x.Points {
		out[i] = p.Chosen
	}
	return out
}

type thread struct {
	id      int
	wake    chan struct{}
	done    bool
	blocked *vsync.Mutex
	kind    string // pending operation
	started bool
}

type sched struct {
	threads []*thread
	parked  chan int // a thread reports that it stopped (at a point, blocked, or done)
	cur     *thread
	horizon int
}

// Yield is an explicit scheduling point for harness code (between API calls).
func Yield() {
	if s, ok := vsync.S.(*sched); ok && s != nil {
		s.Point("yield", nil)
	}
}

// Point implements vsync.Scheduler.
func (s *sched) Point(kind string, _ any) {
	t := s.cur
	t.kind = kind
	s.parked <- t.id
	<-t.wake
}

// Lock implements vsync.Scheduler.
func (s *sched) Lock(m *vsync.Mutex) {
	t := s.cur
	for {
		t.kind = "mutex.lock"
		s.parked <- t.id
		<-t.wake
		if !m.Held {
			m.Held, m.Owner = true, t.id
			t.blocked = nil
			return
		}
		t.blocked = m // the arbiter does not pick this thread until m is released
	}
}

// Unlock implements vsync.Scheduler.
func (s *sched) Unlock(m *vsync.Mutex) {
	t := s.cur
	t.kind = "mutex.unlock"
	s.parked <- t.id
	<-t.wake
	m.Held = false
}

// Run executes the thread bodies under the schedule prefix (choice indexes);
// beyond the prefix choice 0 is taken. An out-of-range prefix choice is a
// divergence (hard error of the harness).
func Run(bodies []func(), prefix []int, horizon int) *Exec {
	s := &sched{parked: make(chan int), horizon: horizon}
	x := &Exec{Panics: make([]any, len(bodies))}
	for i, b := range bodies {
		t := &thread{id: i, wake: make(chan struct{}), kind: "start"}
		s.threads = append(s.threads, t)
		go func(t *thread, body func()) {
			<-t.wake
			defer func() {
				if p := recover(); p != nil {
					x.Panics[t.id] = p
				}
				t.done = true
				s.parked <- t.id
			}()
			body()
		}(t, b)
	}
	vsync.S = s
	defer func() { vsync.S = nil }()
	running := -1
	for step := 0; ; step++ {
		var enabled []int
		runningOK := false
		for _, t := range s.threads {
			if t.done || (t.blocked != nil && t.blocked.Held) {
				continue
			}
			if t.id == running {
				runningOK = true
				continue
			}
			enabled = append(enabled, t.id)
		}
		if runningOK {
			enabled = append([]int{running}, enabled...)
		}
		if len(enabled) == 0 {
			for _, t := range s.threads {
				if !t.done {
					x.Deadlock = true
				}
			}
			break
		}
		if step >= horizon {
			x.Horizon = true
			break
		}
		choice := 0
		if step < len(prefix) {
			choice = prefix[step]
			if choice >= len(enabled) {
				x.Diverged = fmt.Sprintf("step %d: choice %d but only %d enabled", step, choice, len(enabled))
				break
			}
		}
		t := s.threads[enabled[choice]]
		x.Points = append(x.Points, Point{Enabled: enabled, Chosen: choice, Preempt: runningOK && choice != 0, RunningOK: runningOK, Kind: t.kind})
		s.cur = t
		running = t.id
		t.wake <- struct{}{}
		<-s.parked
	}
	if x.Deadlock || x.Horizon || x.Diverged != "" {
		// let the remaining goroutines run to completion sequentially so nothing leaks:
		// release every mutex, wake parked threads one at a time
		vsync.S = &drain{s: s}
		for _, t := range s.threads {
			for !t.done {
				s.cur = t
				t.wake <- struct{}{}
				<-s.parked
			}
		}
	}
	return x
}

// drain lets threads finish after an aborted execution: no more blocking.
type drain struct{ s *sched }

func (d *drain) Point(string, any)     {}
func (d *drain) Lock(m *vsync.Mutex)   { m.Held = true }
func (d *drain) Unlock(m *vsync.Mutex) { m.Held = false }

// Stats summarises an exploration.
type Stats struct {
	Executions int64
	Points     int64
	MaxPoints  int
	Deadlocks  int64
	Capped     bool
}

// Explore enumerates every schedule with at most bound preemptions
// (bound < 0: unbounded) and calls check on each complete execution. setup is
// called before every execution (reset shared state). It stops early when
// check returns false or maxExec is reached.
func Explore(mk func() []func(), setup func(), bound, horizon int, maxExec int64, check func(x *Exec) bool) Stats {
	var st Stats
	var rec func(prefix []int) bool
	rec = func(prefix []int) bool {
		if maxExec > 0 && st.Executions >= maxExec {
			st.Capped = true
			return false
		}
		setup()
		x := Run(mk(), prefix, horizon)
		st.Executions++
		st.Points += int64(len(x.Points))
		if len(x.Points) > st.MaxPoints {
			st.MaxPoints = len(x.Points)
		}
		if x.Deadlock {
			st.Deadlocks++
		}
		if !check(x) {
			return false
		}
		pre := 0
		for i := 0; i < len(x.Points); i++ {
			p := x.Points[i]
			if i >= len(prefix) {
				for alt := 1; alt < len(p.Enabled); alt++ {
					cost := pre
					if p.RunningOK {
						cost++ // switching away from a runnable thread is a preemption
					}
					if bound >= 0 && cost > bound {
						continue
					}
					next := append(append([]int{}, x.Choices()[:i]...), alt)
					if !rec(next) {
						return false
					}
				}
			}
			if p.Preempt {
				pre++
			}
		}
		return true
	}
	rec(nil)
	return st
}
