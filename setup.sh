#!/bin/bash
# Offline setup: pre-build the checker (and warm the Go build cache) from files on disk only.
set -eu
cd "$(dirname "$0")"
export GOFLAGS=-mod=mod GOPROXY=off GOSUMDB=off GOTOOLCHAIN=local
export GOCACHE="${GOCACHE:-/verif/.cache/go-build}"
[ -f go.sum ] || cp /repo/go.sum go.sum 2>/dev/null || true
mkdir -p bin evidence replays
OVL="$(tools/overlay.sh /verif/.work/overlay.setup)"
go build -tags verif -overlay "$OVL" -o bin/vcheck.setup ./cmd/vcheck
go build -race -gcflags=all=-d=checkptr=0 -tags verif -overlay "$OVL" -o bin/racepass.setup ./cmd/racepass   # warms the -race build cache
rm -f bin/vcheck.setup bin/racepass.setup
go test -tags verif -vet=off -overlay "$OVL" -count=1 ./internal/... > bin/selftest.log 2>&1 || { cat bin/selftest.log; exit 1; }
rm -rf /verif/.work/overlay.setup
echo "setup ok"
