#!/bin/bash
# Offline setup: pre-build the checker (and warm the Go build cache) from files on disk only.
set -eu
cd "$(dirname "$0")"
export GOFLAGS=-mod=mod GOPROXY=off GOSUMDB=off GOTOOLCHAIN=local
export GOCACHE="${GOCACHE:-/verif/.cache/go-build}"
[ -f go.sum ] || cp /repo/go.sum go.sum 2>/dev/null || true
mkdir -p bin evidence replays
go build -tags verif -o bin/vcheck.setup ./cmd/vcheck
rm -f bin/vcheck.setup
go test -tags verif -vet=off -count=1 ./internal/... > bin/selftest.log 2>&1 || { cat bin/selftest.log; exit 1; }
echo "setup ok"
